// C10 — indexed tables keep rows and indexes consistent.
//
// Explicit-state search over histories of {Add, Replace, Update, Del, Save} on the real
// common/db/table Table (primary key txhash, two indexed fields gameID and addr) and on a real
// JoinTable (left gameaddr, right game, join indexes addr#status and #status), compared with a map
// model primary key -> row. Several operations on the same key between two saves are the point:
// the key space is three primary keys and three rows per key that differ in one or
// both indexed fields. Checked: the result of every Add (fails exactly when the key is currently
// present, counting the not yet saved operations), the result of Replace/Update/Del on present
// keys, and after every Save (kv list applied to the database) the raw database must hold exactly
// the data and index records of the present rows, GetData must return the latest row and every
// index listing exactly the matching rows.
package main

import (
	"bytes"
	"encoding/json"
	"fmt"
	"os"
	"runtime/debug"
	"sort"
	"strings"
	"sync"

	dbm "github.com/33cn/chain33/common/db"
	"github.com/33cn/chain33/common/db/table"
	protodata "github.com/33cn/chain33/common/db/table/proto"
	clog "github.com/33cn/chain33/common/log"
	"github.com/33cn/chain33/types"
	"verif/vx"
)

// ---- row metas (as in the package's own tests) ----------------------------------------------

type gameAddrRow struct{ *protodata.GameAddr }

func (tx *gameAddrRow) CreateRow() *table.Row { return &table.Row{Data: &protodata.GameAddr{}} }
func (tx *gameAddrRow) SetPayload(data types.Message) error {
	if d, ok := data.(*protodata.GameAddr); ok {
		tx.GameAddr = d
		return nil
	}
	return types.ErrTypeAsset
}
func (tx *gameAddrRow) Get(key string) ([]byte, error) {
	switch key {
	case "gameID":
		return []byte(tx.GameID), nil
	case "addr":
		return []byte(tx.Addr), nil
	case "txhash":
		return []byte(tx.Txhash), nil
	}
	return nil, types.ErrNotFound
}

type gameRow struct{ *protodata.Game }

func (tx *gameRow) CreateRow() *table.Row { return &table.Row{Data: &protodata.Game{}} }
func (tx *gameRow) SetPayload(data types.Message) error {
	if d, ok := data.(*protodata.Game); ok {
		tx.Game = d
		return nil
	}
	return types.ErrTypeAsset
}
func (tx *gameRow) Get(key string) ([]byte, error) {
	switch key {
	case "gameID":
		return []byte(tx.GameID), nil
	case "status":
		return []byte(fmt.Sprint(tx.Status)), nil
	}
	return nil, types.ErrNotFound
}

func optGameAddr() *table.Option {
	return &table.Option{Prefix: "LODB", Name: "gameaddr", Primary: "txhash", Index: []string{"gameID", "addr"}}
}
func optGame() *table.Option {
	return &table.Option{Prefix: "LODB", Name: "game", Primary: "gameID", Index: []string{"status"}}
}

// ---- model -----------------------------------------------------------------------------------

type rowv struct{ g, a string } // gameID, addr

var rowvals = []rowv{{"x", "x"}, {"y", "x"}, {"y", "y"}}
var fieldvals = []string{"x", "y"}

func msgOf(pk string, v rowv) *protodata.GameAddr {
	return &protodata.GameAddr{Txhash: pk, GameID: v.g, Addr: v.a}
}

type sys struct {
	join      bool
	mem       *dbm.GoMemDB
	kvdb      dbm.KVDB
	tab       *table.Table // the (left) table the row operations go to
	right     *table.Table
	jt        *table.JoinTable
	model     map[string]rowv  // present rows, counting the not yet saved operations
	games     map[string]int64 // join harness: right rows gameID -> status
	window    map[string][]string
	fkChanged map[string]bool // left rows whose gameID changed since the last save
	saves     int
	hist      []int
	baseFail  string // the pre-populated rows already fail the oracle: reported by the first operation
}

func (s *sys) modelString() string {
	var ks []string
	for k, v := range s.model {
		ks = append(ks, fmt.Sprintf("%s=%s%s", k, v.g, v.a))
	}
	sort.Strings(ks)
	var gs []string
	for k, v := range s.games {
		gs = append(gs, fmt.Sprintf("%s:%d", k, v))
	}
	sort.Strings(gs)
	return strings.Join(ks, ",") + "|" + strings.Join(gs, ",")
}

func dump(db dbm.DB) map[string]string {
	out := map[string]string{}
	it := db.Iterator(nil, types.EmptyValue, false)
	for ok := it.Rewind(); ok; ok = it.Next() {
		out[string(it.Key())] = string(it.Value())
	}
	it.Close()
	return out
}

func dumpString(db dbm.DB) string {
	m := dump(db)
	var ks []string
	for k := range m {
		ks = append(ks, k)
	}
	sort.Strings(ks)
	var sb strings.Builder
	for _, k := range ks {
		fmt.Fprintf(&sb, "%q=%q;", k, m[k])
	}
	return sb.String()
}

func applyKVs(db dbm.DB, kvs []*types.KeyValue) {
	b := db.NewBatch(true)
	for _, kv := range kvs {
		if kv.Value == nil {
			b.Delete(kv.Key)
		} else {
			b.Set(kv.Key, kv.Value)
		}
	}
	b.Write()
}

// ---- what the database must hold after a save --------------------------------------------------

type rec struct {
	kind string // data / index
	pk   string
	desc string
}

func (s *sys) expected() (map[string]string, map[string]rec) {
	want := map[string]string{}
	info := map[string]rec{}
	for pk, v := range s.model {
		r := &table.Row{Primary: []byte(pk), Data: msgOf(pk, v)}
		enc, _ := r.Encode()
		k := "LODB-gameaddr-d-" + pk
		want[k] = string(enc)
		info[k] = rec{"data", pk, "row " + pk}
		k = "LODB-gameaddr-m-gameID-" + v.g + "-" + pk
		want[k] = pk
		info[k] = rec{"index", pk, "gameID=" + v.g}
		k = "LODB-gameaddr-m-addr-" + v.a + "-" + pk
		want[k] = pk
		info[k] = rec{"index", pk, "addr=" + v.a}
		if s.join {
			st := []byte(fmt.Sprint(s.games[v.g]))
			k = "LODB-gameaddr#game-m-addr#status-" + string(table.JoinKey([]byte(v.a), st)) + "-" + pk
			want[k] = pk
			info[k] = rec{"joinindex", pk, fmt.Sprintf("addr#status=%s#%s", v.a, st)}
			k = "LODB-gameaddr#game-m-#status-" + string(table.JoinKey(nil, st)) + "-" + pk
			want[k] = pk
			info[k] = rec{"joinindex", pk, fmt.Sprintf("#status=#%s", st)}
		}
	}
	if s.join {
		for g, st := range s.games {
			r := &table.Row{Primary: []byte(g), Data: &protodata.Game{GameID: g, Status: st}}
			enc, _ := r.Encode()
			want["LODB-game-d-"+g] = string(enc)
			want[fmt.Sprintf("LODB-game-m-status-%d-%s", st, g)] = g
		}
	}
	return want, info
}

// pkOfKey extracts the primary key a raw record belongs to (last "-" separated part).
func pkOfKey(k string) string { return k[strings.LastIndexByte(k, '-')+1:] }

func kindOfKey(k string) string {
	switch {
	case strings.HasPrefix(k, "LODB-gameaddr-d-"):
		return "data"
	case strings.HasPrefix(k, "LODB-gameaddr-m-"):
		return "index"
	case strings.HasPrefix(k, "LODB-gameaddr#game-m-"):
		return "joinindex"
	}
	return "other"
}

const qDelThenWrite, qWriteThenDel = "key-deleted-then-written-before-the-save", "key-written-then-deleted-before-the-save"

// qualifier: what happened to the key since the last save, reduced to the fact that matters for
// the kind of symptom (a record too many: was the key written and then deleted; a record missing:
// was it deleted and then written).
func (s *sys) qualifier(pk string, missing bool) string {
	w := s.window[pk]
	delThenWrite, writeThenDel := false, false
	for i, a := range w {
		for _, b := range w[i+1:] {
			if a == "Del" && b != "Del" {
				delThenWrite = true
			}
			if (a == "Update" || a == "Add") && b == "Del" {
				writeThenDel = true
			}
		}
	}
	const dw, wd = qDelThenWrite, qWriteThenDel
	switch {
	case missing && delThenWrite:
		return dw
	case !missing && writeThenDel:
		return wd
	case delThenWrite:
		return dw
	case writeThenDel:
		return wd
	case len(w) > 1:
		return "several-writes-to-the-key-before-the-save"
	case len(w) == 1:
		return "single-" + w[0] + "-of-the-key-before-the-save"
	}
	return "key-untouched-since-last-save"
}

// joinQualifier adds what the join records additionally depend on: a change of the row's foreign
// key and updates of right rows in the same save window.
func (s *sys) joinQualifier(pk string) string {
	q := ""
	if _, present := s.model[pk]; present && s.fkChanged[pk] {
		q += "/foreign-key-changed"
	}
	right := false
	for k := range s.window {
		if strings.HasPrefix(k, "game:") {
			right = true
		}
	}
	if right {
		q += "/right-row-updated-in-the-same-save"
	}
	return q
}

func (s *sys) verifySaved(r *vx.Run) string {
	want, _ := s.expected()
	got := dump(s.mem)
	var ks []string
	for k := range got {
		ks = append(ks, k)
	}
	for k := range want {
		if _, ok := got[k]; !ok {
			ks = append(ks, k)
		}
	}
	sort.Strings(ks)
	for _, k := range ks {
		g, gok := got[k]
		w, wok := want[k]
		if gok && wok && g == w {
			continue
		}
		pk := pkOfKey(k)
		kind := kindOfKey(k)
		present := "row-absent"
		if _, ok := s.model[pk]; ok {
			present = "row-present"
		}
		q := s.qualifier(pk, !gok || wok || (kind == "joinindex" && present == "row-present"))
		if kind == "joinindex" && q != qDelThenWrite && q != qWriteThenDel {
			// only when the operations on the key alone do not explain it (deleted-then-written /
			// written-then-deleted do): what else the join records depend on
			q += s.joinQualifier(pk)
		}
		switch {
		case kind == "joinindex" && present == "row-present":
			return fmt.Sprintf("[save:joinindex-out-of-date:row-present:%s] join index records of present row %q do not match its current left/right values: record %q in database=%v expected=%v (rows: %s; operations on the key since the last save: %v)", q, pk, k, gok, wok, s.modelString(), s.window[pk])
		case gok && !wok && kind == "data":
			return fmt.Sprintf("[save:row-still-stored-although-deleted:%s] data record %q is in the database, the model has no row %q (operations on the key since the last save: %v)", q, k, pk, s.window[pk])
		case gok && !wok:
			return fmt.Sprintf("[save:stale-%s-entry:%s:%s] %s record %q is in the database but no present row has that value (rows: %s; operations on the key since the last save: %v)", kind, present, q, kind, k, s.modelString(), s.window[pk])
		case !gok && kind == "data":
			return fmt.Sprintf("[save:row-lost:%s] row %q is present in the model but has no data record (operations on the key since the last save: %v)", q, pk, s.window[pk])
		case !gok:
			return fmt.Sprintf("[save:missing-%s-entry:%s] %s record %q of present row %q is not in the database (rows: %s; operations on the key since the last save: %v)", kind, q, kind, k, pk, s.modelString(), s.window[pk])
		default:
			return fmt.Sprintf("[save:wrong-%s-record:%s] record %q holds %q, expected %q (operations on the key since the last save: %v)", kind, q, k, g, w, s.window[pk])
		}
	}
	// API level
	for _, pk := range pks {
		row, err := s.tab.GetData([]byte(pk))
		v, ok := s.model[pk]
		if !ok {
			if err != types.ErrNotFound {
				return fmt.Sprintf("[api:getdata-of-absent-row] GetData(%q) = %v,%v; model: absent", pk, row, err)
			}
			continue
		}
		if err != nil || !protoEq(row.Data, msgOf(pk, v)) || string(row.Primary) != pk {
			return fmt.Sprintf("[api:getdata-wrong] GetData(%q) = %v,%v; model %v", pk, row, err, v)
		}
	}
	q := s.tab.GetQuery(s.kvdb)
	list := func(name string, idx string, val []byte, match func(pk string, v rowv) bool, lister func(cursor []byte, dir int32) ([]*table.Row, error)) string {
		rows, err := lister(nil, dbm.ListASC)
		var wantPk []string
		for pk, v := range s.model {
			if match(pk, v) {
				wantPk = append(wantPk, pk)
			}
		}
		sort.Strings(wantPk)
		if len(wantPk) == 0 {
			if err != types.ErrNotFound {
				return fmt.Sprintf("[api:listindex-nonempty-for-unused-value] %s(%s=%q) = %d rows,%v; model: none", name, idx, val, len(rows), err)
			}
			outcome(r, name+"/empty")
			return ""
		}
		if err != nil {
			return fmt.Sprintf("[api:listindex-error] %s(%s=%q) error %v; model rows %v", name, idx, val, err, wantPk)
		}
		var gotPk []string
		for _, row := range rows {
			gotPk = append(gotPk, string(row.Primary))
		}
		if fmt.Sprint(gotPk) != fmt.Sprint(wantPk) {
			return fmt.Sprintf("[api:listindex-wrong-rows] %s(%s=%q) = %v; model %v", name, idx, val, gotPk, wantPk)
		}
		outcome(r, fmt.Sprintf("%s/%d-rows", name, len(wantPk)))
		// the same lookup with the other spellings of "no start position", in the other direction, and
		// continued after the first row
		pks := func(rows []*table.Row) string {
			var l []string
			for _, row := range rows {
				l = append(l, string(row.Primary))
			}
			return fmt.Sprint(l)
		}
		if rows, err := lister([]byte{}, dbm.ListASC); err != nil || pks(rows) != fmt.Sprint(wantPk) {
			return fmt.Sprintf("[api:listindex-empty-cursor-differs] %s(%s=%q) with an empty (non-nil) start key = %s,%v; with nil %v", name, idx, val, pks(rows), err, wantPk)
		}
		rev := append([]string{}, wantPk...)
		sort.Sort(sort.Reverse(sort.StringSlice(rev)))
		if rows, err := lister(nil, dbm.ListDESC); err != nil || pks(rows) != fmt.Sprint(rev) {
			return fmt.Sprintf("[api:listindex-desc-differs] %s(%s=%q) descending = %s,%v; model %v", name, idx, val, pks(rows), err, rev)
		}
		rows, err = lister([]byte(wantPk[0]), dbm.ListASC)
		if len(wantPk) == 1 {
			if err != types.ErrNotFound {
				return fmt.Sprintf("[api:listindex-continued-past-the-end] %s(%s=%q) after the only row = %s,%v", name, idx, val, pks(rows), err)
			}
		} else if err != nil || pks(rows) != fmt.Sprint(wantPk[1:]) {
			return fmt.Sprintf("[api:listindex-continued-differs] %s(%s=%q) after row %q = %s,%v; model %v", name, idx, val, wantPk[0], pks(rows), err, wantPk[1:])
		}
		return ""
	}
	for _, val := range fieldvals {
		val := val
		if f := list("ListIndex", "gameID", []byte(val), func(pk string, v rowv) bool { return v.g == val },
			func(c []byte, d int32) ([]*table.Row, error) { return q.ListIndex("gameID", []byte(val), c, 0, d) }); f != "" {
			return f
		}
		if f := list("ListIndex", "addr", []byte(val), func(pk string, v rowv) bool { return v.a == val },
			func(c []byte, d int32) ([]*table.Row, error) { return q.ListIndex("addr", []byte(val), c, 0, d) }); f != "" {
			return f
		}
		// Query.List by example row
		if f := list("List", "addr", []byte(val), func(pk string, v rowv) bool { return v.a == val },
			func(c []byte, d int32) ([]*table.Row, error) {
				return q.List("addr", &protodata.GameAddr{Addr: val}, c, 0, d)
			}); f != "" {
			return f
		}
	}
	if f := list("ListIndex", "primary", nil, func(pk string, v rowv) bool { return true },
		func(c []byte, d int32) ([]*table.Row, error) { return q.ListIndex("primary", nil, c, 0, d) }); f != "" {
		return f
	}
	if s.join {
		for _, a := range fieldvals {
			for _, st := range []int64{1, 2} {
				a, st := a, st
				jk := table.JoinKey([]byte(a), []byte(fmt.Sprint(st)))
				if f := list("JoinListIndex", "addr#status", jk, func(pk string, v rowv) bool { return v.a == a && s.games[v.g] == st },
					func(c []byte, d int32) ([]*table.Row, error) { return s.jt.ListIndex("addr#status", jk, c, 0, d) }); f != "" {
					return f
				}
			}
		}
		for _, st := range []int64{1, 2} {
			st := st
			jk := table.JoinKey(nil, []byte(fmt.Sprint(st)))
			if f := list("JoinListIndex", "#status", jk, func(pk string, v rowv) bool { return s.games[v.g] == st },
				func(c []byte, d int32) ([]*table.Row, error) { return s.jt.ListIndex("#status", jk, c, 0, d) }); f != "" {
				return f
			}
		}
	}
	return ""
}

func protoEq(a types.Message, b types.Message) bool {
	return bytes.Equal(types.Encode(a), types.Encode(b))
}

var outcomesSeen sync.Map

func outcome(r *vx.Run, class string) {
	if _, ok := outcomesSeen.Load(class); ok {
		return
	}
	outcomesSeen.Store(class, true)
	r.Seen("outcomes", class)
}

// ---- operations ------------------------------------------------------------------------------

var pks []string

type op struct {
	kind string // Add Replace Update Del Save GameUpdate
	pk   string
	v    rowv
	st   int64
}

func (o op) String() string {
	switch o.kind {
	case "Save":
		return "Save"
	case "Del":
		return fmt.Sprintf("Del(%s)", o.pk)
	case "GameUpdate", "GameReplace":
		return fmt.Sprintf("%s(game %s,status=%d)", o.kind, o.pk, o.st)
	}
	return fmt.Sprintf("%s(%s,gameID=%s,addr=%s)", o.kind, o.pk, o.v.g, o.v.a)
}

func mkOps(join bool) []op {
	var ops []op
	for _, pk := range pks {
		for _, k := range []string{"Add", "Replace", "Update"} {
			for _, v := range rowvals {
				ops = append(ops, op{kind: k, pk: pk, v: v})
			}
		}
		ops = append(ops, op{kind: "Del", pk: pk})
	}
	if join {
		for _, g := range fieldvals {
			for _, st := range []int64{1, 2} {
				ops = append(ops, op{kind: "GameUpdate", pk: g, st: st})
			}
		}
		ops = append(ops, op{kind: "GameReplace", pk: "x", st: 2})
	}
	ops = append(ops, op{kind: "Save"})
	return ops
}

type harness struct {
	r        *vx.Run
	name     string
	join     bool
	base     map[string]rowv
	ops      []op
	maxSaves int
	statusY  int64 // join harness: initial status of game y (game x starts with 1)
}

func (h *harness) fresh() *sys {
	mem, _ := dbm.NewGoMemDB("c10", "", 0)
	s := &sys{join: h.join, mem: mem, kvdb: dbm.NewKVDB(mem), model: map[string]rowv{}, window: map[string][]string{}, fkChanged: map[string]bool{}}
	var err error
	s.tab, err = table.NewTable(&gameAddrRow{&protodata.GameAddr{}}, s.kvdb, optGameAddr())
	if err != nil {
		panic(err)
	}
	if h.join {
		s.right, err = table.NewTable(&gameRow{&protodata.Game{}}, s.kvdb, optGame())
		if err != nil {
			panic(err)
		}
		s.jt, err = table.NewJoinTable(s.tab, s.right, []string{"addr#status", "#status"})
		if err != nil {
			panic(err)
		}
		s.games = map[string]int64{"x": 1, "y": h.statusY}
		for _, g := range fieldvals {
			if err := s.right.Add(&protodata.Game{GameID: g, Status: s.games[g]}); err != nil {
				panic(err)
			}
		}
	}
	// pre-populated rows: added and saved before the history starts
	var bk []string
	for pk := range h.base {
		bk = append(bk, pk)
	}
	sort.Strings(bk)
	for _, pk := range bk {
		if err := s.tab.Add(msgOf(pk, h.base[pk])); err != nil {
			panic(err)
		}
		s.model[pk] = h.base[pk]
	}
	if len(bk) > 0 || h.join {
		if f := h.save(s); f != "" {
			s.baseFail = f + " (while saving the pre-populated rows)"
		}
		s.saves = 0
	}
	return s
}

func (h *harness) save(s *sys) string {
	var kvs []*types.KeyValue
	var err error
	if h.join {
		kvs, err = s.jt.Save()
	} else {
		kvs, err = s.tab.Save()
	}
	if err != nil {
		return fmt.Sprintf("[save:error:%s] Save() = %v", vx.Norm(err.Error(), 30), err)
	}
	applyKVs(s.mem, kvs)
	s.saves++
	f := s.verifySaved(h.r)
	s.window = map[string][]string{}
	s.fkChanged = map[string]bool{}
	return f
}

func (h *harness) apply(s *sys, i int) string {
	if s.baseFail != "" {
		return s.baseFail
	}
	o := h.ops[i]
	s.hist = append(s.hist, i)
	r := h.r
	_, present := s.model[o.pk]
	switch o.kind {
	case "Save":
		if s.saves >= h.maxSaves {
			return ""
		}
		if f := h.save(s); f != "" {
			return f
		}
		outcome(r, "saved")
	case "Add":
		err := s.tab.Add(msgOf(o.pk, o.v))
		if present {
			if err != table.ErrDupPrimaryKey {
				return fmt.Sprintf("[add:accepted-although-key-present] Add(%s) = %v although the key is present", o.pk, err)
			}
			outcome(r, "add-dup:"+s.qualifier(o.pk, false))
			return ""
		}
		if err != nil {
			cls := "key-not-in-database"
			if _, e := s.mem.Get([]byte("LODB-gameaddr-d-" + o.pk)); e == nil {
				cls = "key-stored-in-database-and-its-delete-is-pending"
			}
			return fmt.Sprintf("[add:%s-although-key-absent:%s] Add(%s) = %v although the key is currently absent (operations on the key since the last save: %v)", vx.Norm(err.Error(), 24), cls, o.pk, err, s.window[o.pk])
		}
		outcome(r, "add-ok:"+s.qualifier(o.pk, false))
		s.model[o.pk] = o.v
		s.window[o.pk] = append(s.window[o.pk], "Add")
	case "Replace":
		if err := s.tab.Replace(msgOf(o.pk, o.v)); err != nil {
			return fmt.Sprintf("[replace:error] Replace(%s) = %v", o.pk, err)
		}
		k := "Add"
		if present {
			k = "Update"
			if s.model[o.pk].g != o.v.g {
				s.fkChanged[o.pk] = true
			}
		}
		s.model[o.pk] = o.v
		s.window[o.pk] = append(s.window[o.pk], k)
	case "Update":
		if !present {
			return "" // Update of an absent key is not issued (its result is not specified)
		}
		if err := s.tab.Update([]byte(o.pk), msgOf(o.pk, o.v)); err != nil {
			return fmt.Sprintf("[update:error-although-key-present:%s] Update(%s) = %v although the key is present (operations on the key since the last save: %v)", s.qualifier(o.pk, false), o.pk, err, s.window[o.pk])
		}
		if s.model[o.pk].g != o.v.g {
			s.fkChanged[o.pk] = true
		}
		s.model[o.pk] = o.v
		s.window[o.pk] = append(s.window[o.pk], "Update")
	case "Del":
		if !present {
			return "" // Del of an absent key is not issued
		}
		if err := s.tab.Del([]byte(o.pk)); err != nil {
			return fmt.Sprintf("[del:error-although-key-present:%s] Del(%s) = %v although the key is present (operations on the key since the last save: %v)", s.qualifier(o.pk, false), o.pk, err, s.window[o.pk])
		}
		delete(s.model, o.pk)
		s.window[o.pk] = append(s.window[o.pk], "Del")
	case "GameUpdate", "GameReplace":
		var err error
		if o.kind == "GameUpdate" {
			err = s.right.Update([]byte(o.pk), &protodata.Game{GameID: o.pk, Status: o.st})
		} else {
			err = s.right.Replace(&protodata.Game{GameID: o.pk, Status: o.st})
		}
		if err != nil {
			return fmt.Sprintf("[right:update-error] %s = %v", o, err)
		}
		s.games[o.pk] = o.st
		s.window["game:"+o.pk] = append(s.window["game:"+o.pk], "Update")
	}
	return ""
}

func (h *harness) seq(depth int) *vx.Seq[*sys] {
	q := &vx.Seq[*sys]{Run: h.r, Name: h.name, NumOps: len(h.ops), MaxDepth: depth, Workers: 8}
	q.New = h.fresh
	q.OpName = func(i int) string { return h.ops[i].String() }
	q.Apply = h.apply
	q.Canon = func(s *sys) string {
		p := s.tab.VerifPending()
		if s.join {
			p += "|R:" + s.right.VerifPending() + "|J:" + s.jt.Table.VerifPending()
		}
		return vx.H(dumpString(s.mem), p, s.modelString(), s.saves)
	}
	q.FP = func(what string, hist []int) string {
		if strings.HasPrefix(what, "[") {
			if e := strings.IndexByte(what, ']'); e > 0 {
				return what[1:e]
			}
		}
		return h.kind() + ":" + vx.Norm(what, 60)
	}
	return q
}

func (h *harness) kind() string {
	if h.join {
		return "join"
	}
	return "table"
}

func main() {
	r := vx.Start("C10", "model_checking")
	clog.SetLogLevel("crit")
	r.QuietStderr()
	debug.SetGCPercent(1000)
	pks = []string{"1", "2", "3"}
	r.Rule = "BFS over all histories of {Add, Replace, Update (3 rows per key differing in one or both indexed fields), Del, Save (at most 2 per history)} over primary keys " + fmt.Sprint(pks) + " on the real Table, from an empty table and from a table with saved rows; and the same plus status updates of the right table on a real JoinTable (gameaddr x game, join indexes addr#status, #status). Checked: result of every Add against 'key currently present' (pending operations count), results of Replace/Update/Del on present keys, and after every Save the raw database == exactly the data/index/join-index records of the present rows, GetData, ListIndex/List for every index and value, primary listing. state = database dump + pending row caches of the real tables + model. distinct = outcome classes (add ok/dup by what happened to the key since the last save, listing sizes per index)"
	r.Assume = []string{
		"Update and Del are only issued for keys that are currently present (their result on absent keys is not specified by the statement)",
		"reads are compared after a Save whose kv list has been applied to the database (before that GetData shows the database, by design)",
		"join harness: the right table holds both games throughout (left rows always reference an existing right row); right rows are only updated",
	}
	r.DistinctSet = "outcomes"
	type plan struct {
		name    string
		join    bool
		base    map[string]rowv
		depth   int
		statusY int64
	}
	plans := []plan{
		{"table/empty", false, nil, r.Pick(5, 7), 0},
		{"table/base", false, map[string]rowv{"1": {"x", "x"}, "2": {"y", "x"}}, r.Pick(4, 6), 0},
		{"join/base", true, map[string]rowv{"1": {"x", "x"}, "2": {"y", "x"}}, r.Pick(3, 5), 1},
		{"join/base-status-differs", true, map[string]rowv{"1": {"x", "x"}, "2": {"y", "x"}}, r.Pick(3, 5), 2},
	}
	mk := func(p plan) *harness {
		return &harness{r: r, name: p.name, join: p.join, base: p.base, ops: mkOps(p.join), maxSaves: 2, statusY: p.statusY}
	}
	if raw, ok := r.Replaying(); ok {
		var c struct {
			Harness string
			Hist    []int
		}
		json.Unmarshal(raw, &c)
		for _, p := range plans {
			if p.name == c.Harness {
				h := mk(p)
				for _, o := range c.Hist {
					fmt.Println("replay:", h.ops[o])
				}
				if f := h.seq(len(c.Hist)).ReplayHist(c.Hist); f != "" {
					fmt.Println("replay: FAIL", f)
					r.Violate("replay", f, c, nil)
				} else {
					fmt.Println("replay: ok")
				}
			}
		}
		r.Finish()
	}
	for _, p := range plans {
		if o := os.Getenv("C10_ONLY"); o != "" && !strings.HasPrefix(p.name, o) {
			continue
		}
		mk(p).seq(p.depth).Explore()
	}
	r.Floors["outcomes"] = 8
	r.Floors["states"] = 300
	r.Finish()
}
