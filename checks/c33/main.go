// C33 — peer input can never crash the node.
// Part A: a grammar of light blocks (declared count vs hash list, nil members, pool look-ups that
// answer singles or groups now and at a later tick) through the real receive path and the real
// pending-block loop under the controlled scheduler: a panic that escapes a background thread is a
// crash. Part B: peer messages, batches and type-confused values with every byte string <= 2 bytes
// and every truncation of valid encodings. Part C: malformed full blocks and transactions (nil
// members, missing signatures, absurd header values; transaction root made consistent so that the
// body reaches execution) delivered to a real node in a worker process whose death is the verdict.
package main

import (
	"bufio"
	"bytes"
	"flag"
	"fmt"
	"math"
	"os"
	"os/exec"
	"strings"

	clog "github.com/33cn/chain33/common/log"
	"github.com/33cn/chain33/common/merkle"
	"github.com/33cn/chain33/system/p2p/dht/protocol/broadcast"
	"github.com/33cn/chain33/types"
	"verif/vnode"
	"verif/vnode/bcx"
	"verif/vnode/treex"
	"verif/vrt"
	"verif/vrt/vtime"
	"verif/vx"
)

var partCFrom = flag.Int("partc", -1, "(internal) run part C cases from this index in a worker process")

// ---------- part A ----------

type answer int // what the pool returns for one short hash: 0 nil, 1 single, 2 head of group of 2, 3 head of group of 3

func poolTx(e *bcx.Env, a answer, salt int) *types.Transaction {
	switch a {
	case 1:
		return bcx.Tx(7000 + salt)
	case 2, 3:
		_, p := bcx.Group(e.Cfg, 8000+10*salt, int(a))
		return p
	}
	return nil
}

func partA(r *vx.Run, e *bcx.Env) {
	_, _, _, ltTopic, _ := broadcast.VerifTopics()
	maxLen := r.Pick(2, 3)
	idx := 0
	for _, txCount := range []int64{-1, 0, 1, 2, 3, 4} {
		for nh := 0; nh <= maxLen+1; nh++ {
			for _, miner := range []bool{true, false} {
				for _, hdr := range []bool{true, false} {
					if !hdr && (txCount != 2 || nh != 2) {
						continue // a nil header is one case, not a dimension
					}
					na := 1
					for i := 0; i < nh && i < maxLen; i++ {
						na *= 4
					}
					for first := 0; first < na; first++ {
						for second := 0; second < na; second++ {
							idx++
							if !r.Mine(idx) || r.Expired("light-block grammar") {
								continue
							}
							runA(r, e, ltTopic, txCount, nh, miner, hdr, first, second, maxLen, false)
							if first == second {
								// the same block arriving while another (well-formed) light block is waiting for a transaction
								runA(r, e, ltTopic, txCount, nh, miner, hdr, first, second, maxLen, true)
							}
						}
					}
				}
			}
		}
	}
}

func runA(r *vx.Run, e *bcx.Env, ltTopic string, txCount int64, nh int, miner, hdr bool, first, second, maxLen int, behind bool) {
	name := fmt.Sprintf("lightblock txCount=%d hashes=%d minerTx=%v header=%v first=%d later=%d", txCount, nh, miner, hdr, first, second)
	kase := map[string]interface{}{"txCount": txCount, "hashes": nh, "minerTx": miner, "header": hdr, "firstAnswers": first, "laterAnswers": second}
	if behind {
		name += " behind-a-pending-light-block"
		kase["behindPending"] = true
	}
	followOK := false
	res := vrt.Execute(func() {
		e.Reset()
		v := e.New(1000)
		v.SetHeight(40)
		lb := &types.LightBlock{}
		if hdr {
			lb.Header = &types.Header{Height: 50, TxCount: txCount, Hash: []byte(fmt.Sprint("h", txCount, nh, miner, first, second)), ParentHash: bytes.Repeat([]byte{1}, 32)}
		}
		if miner {
			lb.MinerTx = bcx.Tx(1)
		}
		var shorts []string
		for i := 0; i < nh; i++ {
			s := fmt.Sprintf("s%02d%d%d", i, first, second)
			shorts = append(shorts, s[:5])
		}
		lb.STxHashes = shorts
		set := func(code int) {
			for i := 0; i < nh && i < maxLen; i++ {
				e.PoolSetRaw(shorts[i], poolTx(e, answer(code%4), i))
				code /= 4
			}
		}
		set(first)
		if behind {
			p1, p2 := bcx.Tx(1), bcx.Tx(7001) // 7001 never reaches the pool: the block stays pending until its time-out
			pb := &types.Block{Height: 49, BlockTime: 1700000000, ParentHash: bytes.Repeat([]byte{6}, 32), StateHash: bytes.Repeat([]byte{9}, 32), Txs: []*types.Transaction{p1, p2}}
			pb.TxHash = merkle.CalcMerkleRoot(e.Cfg, pb.Height, pb.Txs)
			v.Receive(ltTopic, v.BuildLight(pb), e.Peer, e.Peer)
		}
		v.Receive(ltTopic, lb, e.Peer, e.Peer)
		vtime.Sleep(250 * vtime.Millisecond)
		set(second)
		vtime.Sleep(500 * vtime.Millisecond)
		// a later well-formed light block must still be served
		t1, t2 := bcx.Tx(1), bcx.Tx(6001)
		blk := &types.Block{Height: 51, BlockTime: 1700000001, ParentHash: bytes.Repeat([]byte{7}, 32), StateHash: bytes.Repeat([]byte{9}, 32), Txs: []*types.Transaction{t1, t2}}
		blk.TxHash = merkle.CalcMerkleRoot(e.Cfg, blk.Height, blk.Txs)
		good := v.BuildLight(blk)
		e.PoolSetRaw(good.STxHashes[1], t2) // not yet: it arrives after the first try, so that the loop has to do the work
		e.PoolSetRaw(good.STxHashes[1], nil)
		n0 := len(e.PostedBlocks())
		v.Receive(ltTopic, good, e.Peer, e.Peer)
		e.PoolSetRaw(good.STxHashes[1], t2)
		vtime.Sleep(450 * vtime.Millisecond)
		e.SyncBlockchain()
		for _, b := range e.PostedBlocks()[n0:] {
			if bytes.Equal(b.Hash(e.Cfg), blk.Hash(e.Cfg)) {
				followOK = true
			}
		}
	}, nil, 20000, false, nil)
	r.Count("executions", 1)
	r.Count("transitions", int64(res.Steps))
	r.Seen("states", name)
	cls := "served"
	switch {
	case len(res.Panics) > 0:
		cls = "panic"
	case !followOK:
		cls = "loop-stopped"
	}
	r.Seen("distinct", fmt.Sprintf("A txCount=%d hashes=%d miner=%v behind=%v %s", txCount, nh, miner, behind, cls))
	if first != second && nh > 0 {
		r.SampleN(3, kase)
	}
	if len(res.Panics) > 0 {
		first := res.Panics[0]
		site := "?"
		for _, ln := range strings.Split(first, "\n") {
			if strings.Contains(ln, "broadcast.(") {
				site = strings.TrimSpace(ln[strings.Index(ln, "broadcast.("):])
				if i := strings.Index(site, "("); i > 0 {
					if j := strings.LastIndex(site, "("); j > i {
						site = site[:j]
					}
				}
				break
			}
		}
		r.Violate("lightblock:panic-in-background-loop:"+vx.Norm(site, 60), name+": a panic escaped a background thread (the node would stop): "+strings.SplitN(first, "\n", 2)[0]+" at "+site, kase, nil)
		return
	}
	if !followOK {
		r.Violate("lightblock:loop-stops-serving", name+": a later well-formed light block was not rebuilt by the pending-block loop", kase, nil)
	}
}

// ---------- part B ----------

func partB(r *vx.Run, e *bcx.Env) {
	txT, batchT, blockT, ltT, peerPrefix := broadcast.VerifTopics()
	peerT := peerPrefix + e.P2P.Host.ID().String()
	var payloads [][]byte
	payloads = append(payloads, nil, []byte{})
	for a := 0; a < 256; a++ {
		payloads = append(payloads, []byte{byte(a)})
	}
	if !r.Quick() {
		for a := 0; a < 256; a++ {
			for b := 0; b < 256; b++ {
				payloads = append(payloads, []byte{byte(a), byte(b)})
			}
		}
	} else {
		for a := 0; a < 256; a += 5 {
			for b := 0; b < 256; b += 7 {
				payloads = append(payloads, []byte{byte(a), byte(b)})
			}
		}
	}
	valid := [][]byte{
		types.Encode(&types.ReqInt{Height: 41}),
		types.Encode(&types.Block{Height: 41, Txs: []*types.Transaction{bcx.Tx(5)}}),
	}
	for _, vb := range valid {
		for i := 0; i <= len(vb); i++ {
			payloads = append(payloads, vb[:i])
		}
	}
	var values []struct {
		topic string
		val   types.Message
	}
	add := func(t string, m types.Message) {
		values = append(values, struct {
			topic string
			val   types.Message
		}{t, m})
	}
	for _, id := range []int32{0, 1, 2, 3, -1} {
		for _, p := range payloads {
			add(peerT, &types.PeerPubSubMsg{MsgID: id, ProtoMsg: p})
		}
	}
	// type-confused and nil-member values on every topic
	odd := []types.Message{&types.Transaction{}, (*types.Transaction)(nil), &types.Block{}, (*types.Block)(nil), &types.Block{Txs: []*types.Transaction{nil}},
		&types.LightBlock{}, (*types.LightBlock)(nil), &types.Transactions{}, &types.Transactions{Txs: []*types.Transaction{nil, bcx.Tx(3)}}, (*types.Transactions)(nil),
		&types.PeerPubSubMsg{}, (*types.PeerPubSubMsg)(nil), &types.ReqInt{}}
	for _, t := range []string{txT, batchT, blockT, ltT, peerT, "unknown-topic"} {
		for _, o := range odd {
			add(t, o)
		}
	}
	chunk := 400
	for start := 0; start < len(values); start += chunk {
		if !r.Mine(1000000+start/chunk) || r.Expired("peer message grammar") {
			continue
		}
		end := start + chunk
		if end > len(values) {
			end = len(values)
		}
		var at int
		res := vrt.Execute(func() {
			e.Reset()
			v := e.New(1000)
			v.SetHeight(40) // block requests above this height are queued for the request loop
			e.Serve(&types.Block{Height: 41, Txs: []*types.Transaction{bcx.Tx(5)}})
			for at = start; at < end; at++ {
				v.Receive(values[at].topic, values[at].val, e.Peer, e.Peer)
			}
			v.SetHeight(1000) // now the request loop answers the queued requests
			vtime.Sleep(450 * vtime.Millisecond)
		}, nil, 200000, false, nil)
		r.Count("executions", int64(end-start))
		r.Count("transitions", int64(res.Steps))
		r.Seen("states", fmt.Sprint("B", start))
		r.Seen("distinct", fmt.Sprintf("B chunk panics=%d", len(res.Panics)))
		if len(res.Panics) > 0 {
			r.Violate("peermsg:panic-in-background-loop", fmt.Sprintf("peer messages %d..%d: a panic escaped a background thread: %s", start, end, strings.SplitN(res.Panics[0], "\n", 2)[0]), map[string]interface{}{"from": start, "to": end}, nil)
		}
	}
}

// ---------- part C ----------

type ccase struct {
	name string
	blk  *types.Block
	tx   *types.Transaction
	raw  bool // tx is submitted to the mempool instead of a block being delivered
}

func partCCases(env *treex.Env) []ccase {
	cfg := env.Cfg
	tip := env.Trunk[treex.TrunkLen]
	ph := tip.Hash(cfg)
	good := env.Tx()
	sigless := types.Clone(good).(*types.Transaction)
	sigless.Signature = nil
	badty := types.Clone(good).(*types.Transaction)
	badty.Signature.Ty = 999
	nopub := types.Clone(good).(*types.Transaction)
	nopub.Signature.Pubkey = nil
	txs := map[string]*types.Transaction{
		"nil": nil, "empty": {}, "no-signature": sigless, "unknown-signature-type": badty, "empty-pubkey": nopub,
		"empty-execer":      {Payload: []byte("x"), Fee: 1, To: good.To, Signature: good.Signature},
		"garbage-payload":   {Execer: []byte("coins"), Payload: []byte{0xff, 0xff, 0xff}, Fee: 1000000, To: good.To, Signature: good.Signature},
		"group-count-2":     {Execer: []byte("coins"), Payload: good.Payload, Fee: 1000000, To: good.To, Signature: good.Signature, GroupCount: 2},
		"group-count-neg":   {Execer: []byte("coins"), Payload: good.Payload, Fee: 1000000, To: good.To, Signature: good.Signature, GroupCount: -1},
		"group-garbage-hdr": {Execer: []byte("coins"), Payload: good.Payload, Fee: 1000000, To: good.To, Signature: good.Signature, GroupCount: 3, Header: []byte{1, 2, 3}, Next: []byte{4}},
		"negative-fee":      {Execer: []byte("coins"), Payload: good.Payload, Fee: -5, To: good.To, Signature: good.Signature},
		"negative-expire":   {Execer: []byte("coins"), Payload: good.Payload, Fee: 1000000, Expire: -7, To: good.To, Signature: good.Signature},
		"empty-to":          {Execer: []byte("coins"), Payload: good.Payload, Fee: 1000000, Signature: good.Signature},
		"user-exec-name":    {Execer: []byte("user.p.x.coins"), Payload: good.Payload, Fee: 1000000, To: good.To, Signature: good.Signature},
		"huge-nonce":        {Execer: []byte("none"), Payload: bytes.Repeat([]byte{1}, 70000), Fee: 1000000, Nonce: math.MaxInt64, To: good.To, Signature: good.Signature},
	}
	var out []ccase
	mkBlock := func(list []*types.Transaction) *types.Block {
		b := &types.Block{Height: tip.Height + 1, ParentHash: ph, BlockTime: tip.BlockTime + 1, StateHash: tip.StateHash, Difficulty: tip.Difficulty, Txs: list}
		// make the transaction root consistent so that the body gets past the header check
		func() {
			defer func() { recover() }()
			b.TxHash = merkle.CalcMerkleRoot(cfg, b.Height, types.TransactionSort(append([]*types.Transaction{}, list...)))
		}()
		return b
	}
	var names []string
	for k := range txs {
		names = append(names, k)
	}
	sortStrings(names)
	for _, k := range names {
		out = append(out, ccase{name: "block[" + k + "]", blk: mkBlock([]*types.Transaction{txs[k]})})
		out = append(out, ccase{name: "block[good," + k + "]", blk: mkBlock([]*types.Transaction{good, txs[k]})})
		out = append(out, ccase{name: "tx[" + k + "]", tx: txs[k], raw: true})
	}
	hdr := func(name string, f func(b *types.Block)) {
		b := mkBlock([]*types.Transaction{good})
		f(b)
		out = append(out, ccase{name: "header[" + name + "]", blk: b})
	}
	hdr("height-0", func(b *types.Block) { b.Height = 0 })
	hdr("height-neg", func(b *types.Block) { b.Height = -1 })
	hdr("height-max", func(b *types.Block) { b.Height = math.MaxInt64 })
	hdr("time-0", func(b *types.Block) { b.BlockTime = 0 })
	hdr("time-neg", func(b *types.Block) { b.BlockTime = -1 })
	hdr("time-max", func(b *types.Block) { b.BlockTime = math.MaxInt64 })
	hdr("difficulty-0", func(b *types.Block) { b.Difficulty = 0 })
	hdr("difficulty-negative-target", func(b *types.Block) { b.Difficulty = 0x1f800001 })
	hdr("difficulty-max", func(b *types.Block) { b.Difficulty = 0xffffffff })
	hdr("parent-nil", func(b *types.Block) { b.ParentHash = nil })
	hdr("parent-31-bytes", func(b *types.Block) { b.ParentHash = ph[:31] })
	hdr("parent-33-bytes", func(b *types.Block) { b.ParentHash = append(append([]byte{}, ph...), 0) })
	hdr("statehash-nil", func(b *types.Block) { b.StateHash = nil })
	hdr("statehash-short", func(b *types.Block) { b.StateHash = []byte{1} })
	hdr("txhash-nil", func(b *types.Block) { b.TxHash = nil })
	hdr("signature-garbage", func(b *types.Block) { b.Signature = &types.Signature{Ty: 77, Pubkey: []byte{1}, Signature: []byte{2}} })
	hdr("no-txs", func(b *types.Block) { b.Txs = nil; b.TxHash = nil })
	hdr("all-zero", func(b *types.Block) { *b = types.Block{} })
	return out
}

func sortStrings(s []string) {
	for i := range s {
		for j := i + 1; j < len(s); j++ {
			if s[j] < s[i] {
				s[i], s[j] = s[j], s[i]
			}
		}
	}
}

// worker: runs the cases from index `from` on one real node, reporting progress on stdout.
func partCWorker(from int) {
	clog.SetLogLevel("crit")
	env, err := treex.NewEnv(nil)
	if err != nil {
		fmt.Println("ENVERR", err)
		os.Exit(3)
	}
	cases := partCCases(env)
	n := env.Fresh()
	good, err := env.Make(env.Trunk[treex.TrunkLen], 1, treex.Bits[0])
	if err != nil {
		fmt.Println("ENVERR", err)
		os.Exit(3)
	}
	fmt.Println("COUNT", len(cases))
	for i := from; i < len(cases); i++ {
		c := cases[i]
		fmt.Println("START", i, c.name)
		if c.raw {
			if c.tx != nil {
				_, _ = n.API.SendTx(c.tx)
			}
		} else {
			_ = n.Deliver(vnode.Broadcast, c.blk, "peer")
			_ = n.Deliver(vnode.Sync, c.blk, "peer")
		}
		_ = n.Chain.GetBlockHeight()
		fmt.Println("DONE", i)
	}
	// the node still works
	if err := n.Deliver(vnode.Broadcast, good, "peer"); err != nil || n.Chain.GetBlockHeight() != treex.TrunkLen+1 {
		fmt.Println("STUCK", err, n.Chain.GetBlockHeight())
	} else {
		fmt.Println("ALIVE")
	}
	os.Exit(0)
}

func partC(r *vx.Run) {
	from := 0
	total := -1
	for guard := 0; guard < 200; guard++ {
		cmd := exec.Command(os.Args[0], "-partc", fmt.Sprint(from))
		var errb bytes.Buffer
		cmd.Stderr = &errb
		outp, _ := cmd.StdoutPipe()
		if err := cmd.Start(); err != nil {
			r.Note("part C worker could not start: %v", err)
			return
		}
		last, lastName, done, alive, stuck := -1, "", true, false, ""
		sc := bufio.NewScanner(outp)
		for sc.Scan() {
			f := strings.SplitN(sc.Text(), " ", 3)
			switch f[0] {
			case "COUNT":
				fmt.Sscan(f[1], &total)
			case "START":
				fmt.Sscan(f[1], &last)
				if len(f) > 2 {
					lastName = f[2]
				}
				done = false
			case "DONE":
				done = true
				r.Count("executions", 1)
				r.Count("transitions", 2)
				r.Seen("states", "C"+lastName)
				r.Seen("distinct", "C "+strings.SplitN(lastName, "[", 2)[0]+" survived")
				r.SampleN(6, map[string]interface{}{"part": "C", "case": lastName})
			case "ALIVE":
				alive = true
			case "STUCK":
				stuck = sc.Text()
			case "ENVERR":
				r.Note("part C environment error: %s", sc.Text())
			}
		}
		err := cmd.Wait()
		if alive {
			return
		}
		if stuck != "" {
			r.Violate("fullblock:node-stops-accepting-blocks", "after the malformed blocks and transactions a valid block is no longer accepted: "+stuck, nil, nil)
			return
		}
		if !done && last >= 0 {
			tail := errb.String()
			if i := strings.Index(tail, "panic:"); i >= 0 {
				tail = tail[i:]
			}
			if len(tail) > 600 {
				tail = tail[:600]
			}
			kind := strings.SplitN(lastName, "[", 2)[0]
			r.Violate("peer-input-kills-node:"+lastName, fmt.Sprintf("the node process died while handling %s (%v): %s", lastName, err, strings.Replace(tail, "\n", " | ", -1)), map[string]interface{}{"case": lastName, "kind": kind}, nil)
			r.Count("executions", 1)
			from = last + 1
			if total >= 0 && from >= total {
				return
			}
			continue
		}
		r.Note("part C worker ended unexpectedly: %v %s", err, errb.String())
		return
	}
}

func main() {
	flag.Parse()
	if *partCFrom >= 0 {
		partCWorker(*partCFrom)
	}
	r := vx.Start("C33", "model_checking")
	clog.SetLogLevel("crit")
	r.QuietStderr()
	r.Rule = "A: light blocks with declared transaction count in {-1,0,1,2,3,4} x 0..L+1 short hashes x miner transaction present/absent (x nil header) x every assignment of pool answers {nothing, single, head of a group of 2, of 3} to the first L hashes at first look-up and again at a later tick, through the real receive path and pending-block loop (virtual ticker), followed by a well-formed light block that the loop must still rebuild. B: peer messages with every message id in {-1,0,1,2,3} x every byte string of length <= 2 (thorough; quick: a lattice) x every truncation of two valid encodings, plus nil / empty / type-confused values on every topic; block requests are queued and answered by the real request loop. C: 60+ malformed full blocks and transactions (nil members, missing or unknown signatures, group fields, absurd heights/times/difficulties/hashes, transaction root made consistent) delivered to a real node by broadcast and sync / submitted to its mempool, in a worker process whose death is the verdict. states = cases; distinct = (part, shape, outcome) classes"
	r.Assume = []string{"a panic recovered on the receive path counts as 'dropped'; only a panic that escapes a goroutine (the process would stop) or a loop that stops serving is a violation", "download replies are exercised by C35's malformed-peer behaviours; header/height announcements and state proofs by C03's byte-string families"}
	if r.Fork(16) {
		partC(r)
		r.Floors["executions"] = 200
		r.Floors["distinct"] = 10
		r.Finish()
	}
	e := bcx.NewEnv()
	partA(r, e)
	partB(r, e)
	r.Finish()
}
