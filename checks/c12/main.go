package main

import (
	"fmt"
	"strings"
	"time"

	clog "github.com/33cn/chain33/common/log"
	"github.com/33cn/chain33/types"
	"verif/vnode"
	"verif/vnode/vfx"
	"verif/vx"
)

func main() {
	r := vx.Start("C12", "exploration")
	clog.SetLogLevel("crit")
	//r.QuietStderr()
	n := vnode.New(vnode.Options{NoConsensus: false, CfgEdit: func(s string) string {
		s = strings.Replace(s, `Title="local"`, `Title="user.p.para."`, 1)
		return s
	}})
	fmt.Println("para", n.Cfg.IsPara(), n.Cfg.GetTitle())
	if !n.WaitHeight(0, 5*time.Second) {
		fmt.Println("HARNESS-ERROR no genesis")
		r.Finish()
	}
	g, _ := n.Chain.GetBlock(0)
	for k, v := range n.StateAt(g.Block.StateHash) {
		fmt.Printf("state %q = %q\n", k, vx.Norm(v, 40))
	}
	key := vnode.Key(vnode.GenesisKeyHex)
	cfg := n.Cfg
	E := "user.p.para.vfx"
	txs := []*types.Transaction{
		vfx.SignedTx(cfg, E, &vfx.Prog{Exec: []vfx.Step{{Op: "set", K: "mavl-vfx-a", V: "1"}}, Local: []vfx.Step{{Op: "setl", K: "LODB-vfx-a", V: "L1"}}}, 1000000, 1, key),
		vfx.SignedTx(cfg, E, &vfx.Prog{Exec: []vfx.Step{{Op: "get", K: "mavl-vfx-a"}, {Op: "getl", K: "LODB-vfx-a"}}}, 1000000, 2, key),
	}
	b, err := vnode.MakeBlock(n, g.Block, txs, 0x1f00ffff, 0)
	fmt.Println("makeblock", err)
	if err == nil {
		fmt.Println("txs kept", len(b.Txs))
		err = n.Deliver(vnode.Broadcast, b, "p")
		fmt.Println("deliver", err, n.Chain.GetBlockHeight())
		d, _ := n.Chain.GetBlock(1)
		if d != nil {
			for i, rc := range d.Receipts {
				fmt.Println(i, rc.Ty)
				for _, l := range rc.Logs {
					fmt.Printf("   log %d %s\n", l.Ty, vx.Norm(string(l.Log), 300))
				}
			}
		}
	}
	r.Count("evaluations", 1)
	r.Finish()
}
