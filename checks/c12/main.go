// C12 — transactions can only write where their executor is allowed.
//
// One program transaction per block (followed by a reader that reports the written keys), for every
// executor name form (vfx, vfy, user.vfx.n, user.vfy.n on a main chain; user.p.para.vfx, user.p.para.vfy,
// user.p.para.user.vfx.n, user.p.para.user.vfy.n on a parachain-titled node), every combination of <= 2
// state-key actions from a catalogue of key classes (own namespace, written-but-unreported, reported-but-
// unwritten, other executor's namespace, the driver's namespace under a user.* name, friend-approved and
// friend-refused areas, own / other / driver's deposit area inside coins, plain coins account, malformed
// keys) and every local-key class (none, correct prefix by driver name and by full name, other executor's
// prefix, too short, missing separators, wrong common prefix, a state key). Executed by the real executor
// through EventExecTxList and EventAddBlock on a real node. The oracle is a predicate written from the
// property text.
package main

import (
	"encoding/json"
	"fmt"
	"sort"
	"strings"
	"time"

	"github.com/33cn/chain33/common/crypto"
	clog "github.com/33cn/chain33/common/log"
	"github.com/33cn/chain33/types"
	"verif/vnode"
	"verif/vnode/vfx"
	"verif/vx"
)

const (
	fee      = 100000
	bits     = 0x1f00ffff
	paraTitl = "user.p.para."
)

var (
	gkey crypto.PrivKey
	gcfg *types.Chain33Config
)

// ---------------------------------------------------------------- names

// nameForm describes one executor name under which the program runs.
type nameForm struct {
	Form   string // plain, user, para, para-user
	Name   string // full executor name of the transaction
	Driver string // vfx or vfy
	Other  string // the other synthetic executor
	Own    string // the name the chain itself uses for the executor (parachain title stripped)
}

func nameForms(para bool) []nameForm {
	var out []nameForm
	for _, d := range []string{vfx.NameX, vfx.NameY} {
		o := vfx.NameY
		if d == vfx.NameY {
			o = vfx.NameX
		}
		if !para {
			out = append(out, nameForm{"plain", d, d, o, d})
			out = append(out, nameForm{"user", "user." + d + ".n", d, o, "user." + d + ".n"})
			// the name another parachain would use for the driver, on a chain that is not that parachain: the
			// chain strips no title, so the transaction's own namespace is the full name
			out = append(out, nameForm{"foreign-para", "user.p.other." + d, d, o, "user.p.other." + d})
		} else {
			out = append(out, nameForm{"para", paraTitl + d, d, o, d})
			out = append(out, nameForm{"para-user", paraTitl + "user." + d + ".n", d, o, "user." + d + ".n"})
		}
	}
	return out
}

// ---------------------------------------------------------------- catalogue of state-key actions

type action struct {
	Class string
	Op    string // set (written and reported), omit (written, not reported), emit (reported, not written)
	Key   string
}

const someAddr = "1JmFaA6unrCFYEWPGRi7uuXY1KthTJxJEP"

func dep(depositor, rest string) string {
	return "mavl-coins-bty-exec-" + vfx.ExecAddr(depositor) + ":" + rest
}

func actions(nf nameForm) []action {
	a := []action{
		{"own", "set", "mavl-" + nf.Own + "-k1"},
		{"own-written-unreported", "omit", "mavl-" + nf.Own + "-k2"},
		{"own-reported-unwritten", "emit", "mavl-" + nf.Own + "-k3"},
		{"other-namespace", "set", "mavl-" + nf.Other + "-k"},
		{"other-namespace-reported-unwritten", "emit", "mavl-" + nf.Other + "-k4"},
		{"other-namespace-friend-approved", "set", "mavl-" + nf.Other + "-k" + vfx.FriendMark + "1"},
		{"coins-account", "set", "mavl-coins-bty-" + someAddr},
		{"own-deposit", "set", dep(nf.Name, someAddr)},
		{"other-deposit", "set", dep(nf.Other, someAddr)},
		{"other-deposit-friend-marked", "set", dep(nf.Other, "x"+vfx.FriendMark+someAddr)},
		{"no-mavl-prefix", "set", "xavl-" + nf.Own + "-k"},
		{"no-executor-separator", "set", "mavl-" + nf.Own},
		{"empty-namespace", "set", "mavl--k"},
		{"longer-namespace", "set", "mavl-" + nf.Own + "x-k"},
		{"unknown-namespace-friend-marked", "set", "mavl-zzz-k" + vfx.FriendMark + "1"},
	}
	if nf.Name != nf.Driver {
		// under user.* / parachain names the driver's own areas are somebody else's unless the driver allows
		if nf.Own != nf.Driver {
			a = append(a, action{"driver-namespace", "set", "mavl-" + nf.Driver + "-k"})
			a = append(a, action{"driver-namespace-friend-approved", "set", "mavl-" + nf.Driver + "-k" + vfx.FriendMark + "1"})
		}
		a = append(a, action{"driver-deposit", "set", dep(nf.Driver, someAddr)})
		a = append(a, action{"driver-deposit-friend-approved", "set", dep(nf.Driver, "x"+vfx.FriendMark+someAddr)})
	}
	return a
}

// ---------------------------------------------------------------- the rule, written from the property text

// namespaceOf: state keys are "mavl-<executor>-<rest>".
func namespaceOf(key string) (string, bool) {
	if !strings.HasPrefix(key, "mavl-") {
		return "", false
	}
	rest := key[len("mavl-"):]
	i := strings.IndexByte(rest, '-')
	if i < 0 {
		return "", false
	}
	return rest[:i], true
}

// depositOf: the deposit area an executor keeps inside another one is "mavl-<host>-<symbol>-exec-<address of the depositor>:<account>".
func depositOf(key string) (string, bool) {
	parts := strings.SplitN(key, "-", 5)
	if len(parts) < 5 || parts[0] != "mavl" || parts[3] != "exec" {
		return "", false
	}
	i := strings.IndexByte(parts[4], ':')
	if i < 0 {
		return "", false
	}
	return parts[4][:i], true
}

// driverOfName: the synthetic driver behind an executor name ("" if none).
func driverOfName(n string) string {
	n = strings.TrimPrefix(n, paraTitl)
	if n == vfx.NameX || n == vfx.NameY {
		return n
	}
	for _, d := range []string{vfx.NameX, vfx.NameY} {
		if strings.HasPrefix(n, "user."+d+".") && strings.Count(n, ".") == 2 {
			return d
		}
	}
	return ""
}

// allowedKey: "each reported key lies in its own executor's namespace, in its own deposit area inside
// another executor, or in an area the owning executor explicitly allows".
func allowedKey(nf nameForm, key string) bool {
	ns, ok := namespaceOf(key)
	if !ok {
		return false
	}
	if ns == nf.Own {
		return true
	}
	d, isDep := depositOf(key)
	if isDep && d == vfx.ExecAddr(nf.Name) {
		return true
	}
	// explicit permission: the owner is the executor in whose namespace the key lies or, for a deposit area
	// kept for the transaction's own driver, that driver. Only the synthetic executors ever give permission
	// (keys carrying vfx.FriendMark); coins gives none to these transactions, unknown executors none at all.
	owner := driverOfName(ns)
	if isDep && d == vfx.ExecAddr(nf.Driver) {
		owner = nf.Driver
	}
	return owner != "" && vfx.Friendly([]byte(key))
}

// stateVerdict: "executes successfully only if every state key it wrote is reported in its receipt and each
// reported key [is allowed]".
func stateVerdict(nf nameForm, acts []action) (ok bool, why []string) {
	ok = true
	for _, a := range acts {
		if a.Op == "omit" {
			ok = false
			why = append(why, a.Class)
			continue
		}
		if !allowedKey(nf, a.Key) {
			ok = false
			why = append(why, a.Class)
		}
	}
	return
}

// ---------------------------------------------------------------- local-key classes

type localClass struct {
	Class string
	Key   string
	// Want: +1 carries the executor's local prefix, -1 does not, 0 the statement does not say
	Want int
}

func localClasses(nf nameForm) []localClass {
	l := []localClass{
		{"none", "", 1},
		{"driver-prefix", "LODB-" + nf.Driver + "-k", 1},
		{"other-executor-prefix", "LODB-" + nf.Other + "-k", -1},
		{"prefix-only", "LODB-" + nf.Driver + "-", 0},
		{"too-short", "LODB-" + nf.Driver[:2], -1},
		{"no-separator-after-name", "LODB-" + nf.Driver + "xk", -1},
		{"no-separator-after-LODB", "LODBx" + nf.Driver + "-k", -1},
		{"longer-name", "LODB-" + nf.Driver + "x-k", -1},
		{"wrong-common-prefix", "LODA-" + nf.Driver + "-k", -1},
		{"state-key", "mavl-" + nf.Driver + "-k", -1},
	}
	if nf.Name != nf.Driver {
		l = append(l, localClass{"full-name-prefix", "LODB-" + nf.Name + "-k", 1})
	}
	return l
}

// ---------------------------------------------------------------- world

type world struct {
	para   bool
	n      *vnode.Node
	parent *types.Block
	acct   string
}

func newWorld(para bool) (*world, error) {
	w := &world{para: para}
	w.n = vnode.New(vnode.Options{CfgEdit: func(s string) string {
		if para {
			s = strings.Replace(s, `Title="local"`, `Title="`+paraTitl+`"`, 1)
		}
		return s
	}})
	gcfg = w.n.Cfg
	gkey = vnode.Key(vnode.GenesisKeyHex)
	if gcfg.IsPara() != para {
		return nil, fmt.Errorf("configuration: IsPara=%v, want %v", gcfg.IsPara(), para)
	}
	if !w.n.WaitHeight(0, 10*time.Second) {
		return nil, fmt.Errorf("no genesis block")
	}
	g, err := w.n.Chain.GetBlock(0)
	if err != nil {
		return nil, err
	}
	w.parent = g.Block
	w.acct = "mavl-coins-bty-" + vnode.Addr(gkey)
	if _, ok := w.n.StateAt(w.parent.StateHash)[w.acct]; !ok {
		return nil, fmt.Errorf("sender account missing in the genesis state")
	}
	return w, nil
}

func (w *world) close() { w.n.Close(); w.n.Forget() }

func send(n *vnode.Node, topic string, ty int64, data interface{}) (interface{}, error) {
	msg := n.Client.NewMessage(topic, ty, data)
	if err := n.Client.Send(msg, true); err != nil {
		return nil, err
	}
	resp, err := n.Client.Wait(msg)
	if err != nil {
		return nil, err
	}
	if e, ok := resp.GetData().(error); ok {
		return nil, e
	}
	return resp.GetData(), nil
}

// ---------------------------------------------------------------- one case

type kase struct {
	Para   bool     `json:"para"`
	Name   string   `json:"name"`
	State  []string `json:"state"` // classes
	Local  string   `json:"local"`
	Keys   []string `json:"keys,omitempty"`
	LocalK string   `json:"local_key,omitempty"`
}

type finding struct{ FP, What string }

var nonce int64

func runCase(r *vx.Run, w *world, nf nameForm, acts []action, lc localClass) (out []finding) {
	add := func(fp, f string, a ...interface{}) { out = append(out, finding{fp, fmt.Sprintf(f, a...)}) }
	tag := nf.Driver + "/" + nf.Form
	var classes []string
	p := &vfx.Prog{}
	rd := &vfx.Prog{}
	for i, a := range acts {
		classes = append(classes, a.Class)
		p.Exec = append(p.Exec, vfx.Step{Op: a.Op, K: a.Key, V: fmt.Sprint("v", i)})
		rd.Exec = append(rd.Exec, vfx.Step{Op: "get", K: a.Key})
	}
	sort.Strings(classes)
	cls := strings.Join(classes, "+")
	if cls == "" {
		cls = "no-write"
	}
	if lc.Key != "" {
		p.Local = []vfx.Step{{Op: "setl", K: lc.Key, V: "lv"}}
	}
	nonce += 2
	readerName := nf.Driver
	if w.para {
		readerName = paraTitl + nf.Driver
	}
	txs := []*types.Transaction{
		vfx.SignedTx(gcfg, nf.Name, p, fee, nonce, gkey),
		vfx.SignedTx(gcfg, readerName, rd, fee, nonce+1, gkey),
	}
	stateOK, why := stateVerdict(nf, acts)
	sameTime := nf.Driver == vfx.NameX
	localRuns := stateOK && lc.Key != "" // ExecLocal only runs for a transaction whose state part went through
	if r != nil {
		r.Count("evaluations", 1)
		if !stateOK {
			r.Count("cases_the_rule_refuses", 1)
		}
		if localRuns && lc.Want < 0 {
			r.Count("cases_with_a_bad_local_key", 1)
		}
	}
	list := &types.ExecTxList{StateHash: w.parent.StateHash, ParentHash: w.parent.Hash(gcfg), Txs: txs,
		BlockTime: w.parent.BlockTime + 1, Height: w.parent.Height + 1, Difficulty: bits}
	var data interface{}
	var err error
	if pn := vx.Catch(func() { data, err = send(w.n, "execs", types.EventExecTxList, list) }); pn != "" {
		err = fmt.Errorf("%s", pn)
	}
	outcome := ""
	defer func() {
		if r != nil {
			lcl := "-"
			if localRuns {
				lcl = lc.Class
			}
			r.Seen("distinct", tag+"|refused-for:"+strings.Join(why, "+")+"|"+lcl+"|"+outcome)
			r.Count("outcome_"+strings.SplitN(outcome, "/", 2)[0], 1)
		}
	}()
	if err != nil {
		outcome = "list-error"
		// the whole list may only be refused because of a local key that lacks the prefix
		if !(localRuns && sameTime && lc.Want <= 0) {
			add("exec-tx-list-fails:"+vx.Norm(err.Error(), 40)+":"+tag, "EventExecTxList answered %v", err)
		}
		return
	}
	rc, _ := data.(*types.Receipts)
	if rc == nil || len(rc.Receipts) != 2 {
		outcome = "bad-reply"
		add("receipt-count", "EventExecTxList reply %T", data)
		return
	}
	t, rdr := rc.Receipts[0], rc.Receipts[1]
	outcome = fmt.Sprint("ty", t.Ty)
	var foreign []string
	for _, kv := range t.KV {
		if string(kv.Key) != w.acct {
			foreign = append(foreign, string(kv.Key))
		}
	}
	seen := map[string]string{}
	for _, o := range vfx.ObsOf(rdr.Logs) {
		if o.Err == "" {
			seen[o.K] = o.V
		}
	}
	if rdr.Ty != types.ExecOk {
		add("HARNESS", "the reader did not execute: type %d", rdr.Ty)
	}
	switch {
	case !stateOK:
		// "otherwise it fails and its writes are discarded"
		if t.Ty == types.ExecOk {
			add("forbidden-write-accepted:"+strings.Join(why, "+")+":"+tag, "executor %s, actions %v: the rule refuses %v but the receipt is ExecOk with keys %q", nf.Name, describe(acts), why, foreign)
		} else {
			if len(foreign) > 0 {
				add("refused-transaction-keeps-writes-in-receipt:"+cls+":"+tag, "executor %s, actions %v: receipt type %d still carries keys %q", nf.Name, describe(acts), t.Ty, foreign)
			}
			if len(seen) > 0 {
				add("refused-transaction-writes-visible-to-next-transaction:"+cls+":"+tag, "executor %s, actions %v: receipt type %d but the next transaction reads %v", nf.Name, describe(acts), t.Ty, seen)
			}
		}
	case localRuns && sameTime && lc.Want < 0:
		// "local-data writes produced for a transaction must carry that executor's local prefix"
		if t.Ty == types.ExecOk {
			add("local-key-without-prefix-accepted-at-exec:"+lc.Class+":"+tag, "executor %s: local key %q accepted, receipt ExecOk", nf.Name, lc.Key)
		}
	case localRuns && sameTime && lc.Want == 0:
	default:
		if t.Ty != types.ExecOk {
			fp := "allowed-write-refused:" + cls + ":" + tag
			if localRuns && sameTime {
				fp = "local-key-with-prefix-refused-at-exec:" + lc.Class + ":" + tag
			}
			add(fp, "executor %s, actions %v, local key %q: the rule allows it but the receipt type is %d (%s)", nf.Name, describe(acts), lc.Key, t.Ty, errLogs(t.Logs))
		} else {
			for i, a := range acts {
				if a.Op == "set" && seen[a.Key] != fmt.Sprint("v", i) {
					add("successful-write-not-visible:"+a.Class+":"+tag, "executor %s: key %q written by a successful transaction reads %q afterwards", nf.Name, a.Key, seen[a.Key])
				}
			}
		}
	}
	// block end: EventAddBlock as the blockchain module sends it
	if t.Ty == types.ExecErr || rdr.Ty == types.ExecErr {
		return
	}
	var kvset []*types.KeyValue
	var rdata []*types.ReceiptData
	for _, x := range rc.Receipts {
		kvset = append(kvset, x.KV...)
		rdata = append(rdata, &types.ReceiptData{Ty: x.Ty, Logs: x.Logs})
	}
	blk := &types.Block{Height: w.parent.Height + 1, ParentHash: w.parent.Hash(gcfg), BlockTime: w.parent.BlockTime + 1, Txs: txs, StateHash: w.parent.StateHash, Difficulty: bits}
	detail := &types.BlockDetail{Block: blk, Receipts: rdata, KV: kvset, PrevStatusHash: w.parent.StateHash}
	if pn := vx.Catch(func() { data, err = send(w.n, "execs", types.EventAddBlock, detail) }); pn != "" {
		err = fmt.Errorf("%s", pn)
	}
	produced := t.Ty == types.ExecOk && lc.Key != ""
	if err != nil {
		outcome += "/addblock-error"
		if !(produced && lc.Want <= 0) {
			add("add-block-fails:"+vx.Norm(err.Error(), 40)+":"+tag, "EventAddBlock answered %v (local class %s, receipt type %d)", err, lc.Class, t.Ty)
		}
		return
	}
	ls, _ := data.(*types.LocalDBSet)
	has := false
	for _, kv := range ls.GetKV() {
		if lc.Key != "" && string(kv.Key) == lc.Key {
			has = true
		}
	}
	outcome += fmt.Sprint("/addblock-has-key=", has)
	if has && (lc.Want < 0 || t.Ty != types.ExecOk) {
		add("local-key-without-prefix-handed-to-the-chain:"+lc.Class+":"+tag, "executor %s: EventAddBlock returns local key %q (receipt type %d)", nf.Name, lc.Key, t.Ty)
	}
	if !has && produced && lc.Want > 0 {
		add("local-key-with-prefix-dropped-at-block-end:"+lc.Class+":"+tag, "executor %s: EventAddBlock does not return local key %q", nf.Name, lc.Key)
	}
	return
}

// runGroupCase: the program is the SECOND member of a transaction group whose first member (same
// executor) legitimately wrote and reported the same key. The rule speaks of every transaction, so
// the second member is judged exactly like a stand-alone one; a group fails as a whole.
func runGroupCase(r *vx.Run, w *world, nf nameForm, a action) (out []finding) {
	add := func(fp, f string, x ...interface{}) { out = append(out, finding{fp, fmt.Sprintf(f, x...)}) }
	tag := nf.Driver + "/" + nf.Form
	nonce += 3
	pre := &vfx.Prog{Exec: []vfx.Step{{Op: "set", K: a.Key, V: "pre"}}}
	p := &vfx.Prog{Exec: []vfx.Step{{Op: a.Op, K: a.Key, V: "v0"}}}
	rd := &vfx.Prog{Exec: []vfx.Step{{Op: "get", K: a.Key}}}
	g, err := vfx.Group(gcfg, []*types.Transaction{vfx.NewTx(gcfg, nf.Name, pre, fee, nonce), vfx.NewTx(gcfg, nf.Name, p, fee, nonce+1)}, gkey)
	if err != nil {
		add("HARNESS", "group: %v", err)
		return
	}
	readerName := nf.Driver
	if w.para {
		readerName = paraTitl + nf.Driver
	}
	txs := append(g, vfx.SignedTx(gcfg, readerName, rd, fee, nonce+2, gkey))
	ok2, why := stateVerdict(nf, []action{a})
	list := &types.ExecTxList{StateHash: w.parent.StateHash, ParentHash: w.parent.Hash(gcfg), Txs: txs,
		BlockTime: w.parent.BlockTime + 1, Height: w.parent.Height + 1, Difficulty: bits}
	var data interface{}
	if pn := vx.Catch(func() { data, err = send(w.n, "execs", types.EventExecTxList, list) }); pn != "" {
		err = fmt.Errorf("%s", pn)
	}
	if err != nil {
		add("exec-tx-list-fails:group:"+vx.Norm(err.Error(), 40)+":"+tag, "EventExecTxList answered %v", err)
		return
	}
	rc, _ := data.(*types.Receipts)
	if rc == nil || len(rc.Receipts) != 3 {
		add("receipt-count", "EventExecTxList reply %T", data)
		return
	}
	seen := ""
	for _, o := range vfx.ObsOf(rc.Receipts[2].Logs) {
		if o.Err == "" && o.K == a.Key {
			seen = o.V
		}
	}
	if r != nil {
		r.Count("evaluations", 1)
		r.Count("group_cases", 1)
		r.Seen("distinct", fmt.Sprintf("%s|group-second-member:%s|ok=%v|ty%d,%d", tag, a.Class, ok2, rc.Receipts[0].Ty, rc.Receipts[1].Ty))
	}
	t1, t2 := rc.Receipts[0].Ty, rc.Receipts[1].Ty
	if !ok2 {
		if t2 == types.ExecOk || t1 == types.ExecOk {
			add("forbidden-write-accepted:group-second-member:"+strings.Join(why, "+")+":"+tag, "executor %s, group [set %q; %s %q]: the rule refuses the second member for %v but the receipt types are %d, %d", nf.Name, a.Key, a.Op, a.Key, why, t1, t2)
		}
		if seen != "" {
			add("refused-group-writes-visible-to-next-transaction:"+a.Class+":"+tag, "executor %s, group [set %q; %s %q]: the next transaction reads %q", nf.Name, a.Key, a.Op, a.Key, seen)
		}
		return
	}
	if t1 != types.ExecOk || t2 != types.ExecOk {
		add("allowed-write-refused:group-second-member:"+a.Class+":"+tag, "executor %s, group [set %q; %s %q]: the rule allows it but the receipt types are %d, %d", nf.Name, a.Key, a.Op, a.Key, t1, t2)
	} else if a.Op == "set" && seen != "v0" {
		add("successful-write-not-visible:group-second-member:"+a.Class+":"+tag, "executor %s: key %q written by the second member reads %q afterwards", nf.Name, a.Key, seen)
	}
	return
}

func describe(acts []action) []string {
	var out []string
	for _, a := range acts {
		out = append(out, a.Op+" "+a.Key)
	}
	return out
}

func errLogs(logs []*types.ReceiptLog) string {
	var out []string
	for _, l := range logs {
		if l.Ty == types.TyLogErr {
			out = append(out, string(l.Log))
		}
	}
	return strings.Join(out, "; ")
}

// ---------------------------------------------------------------- driver

func combos(n, max int) [][]int {
	out := [][]int{{}}
	var rec func(start int, cur []int)
	rec = func(start int, cur []int) {
		if len(cur) > 0 {
			out = append(out, append([]int{}, cur...))
		}
		if len(cur) == max {
			return
		}
		for i := start; i < n; i++ {
			rec(i+1, append(cur, i))
		}
	}
	rec(0, nil)
	sort.SliceStable(out, func(i, j int) bool { return len(out[i]) < len(out[j]) })
	return out
}

func pick(acts []action, idx []int) []action {
	var out []action
	for _, i := range idx {
		out = append(out, acts[i])
	}
	return out
}

func find(para bool, k kase) (nameForm, []action, localClass, bool) {
	for _, nf := range nameForms(para) {
		if nf.Name != k.Name {
			continue
		}
		var acts []action
		for _, c := range k.State {
			for _, a := range actions(nf) {
				if a.Class == c {
					acts = append(acts, a)
				}
			}
		}
		for _, lc := range localClasses(nf) {
			if lc.Class == k.Local {
				return nf, acts, lc, len(acts) == len(k.State)
			}
		}
	}
	return nameForm{}, nil, localClass{}, false
}

func main() {
	r := vx.Start("C12", "exploration")
	vfx.AllowForeignPara = true
	clog.SetLogLevel("crit")
	r.QuietStderr()
	r.Rule = "executor name form {vfx, vfy, user.vfx.n, user.vfy.n, user.p.other.vfx, user.p.other.vfy (another parachain's name for the driver, which the driver accepts as paracross does) on a main-chain node; user.p.para.vfx, user.p.para.vfy, user.p.para.user.vfx.n, user.p.para.user.vfy.n on a node titled user.p.para.} x every combination of <= 2 (quick) / <= 3 (thorough) state-key actions from the catalogue (own namespace; own key written but unreported; own key reported but unwritten; other executor's namespace written / only reported / friend-approved; plain coins account; own, other, friend-marked other deposit area in coins; key without mavl- prefix, without executor separator, with empty namespace, with a longer namespace, unknown namespace with friend mark; under user.* and parachain names also the driver's namespace and deposit area, with and without the driver's approval) x every local-key class (none, driver-name prefix, full-name prefix, other executor's prefix, prefix only, too short, missing separator after the name / after LODB, longer name, wrong common prefix, a state key); one program transaction + one reader per block through EventExecTxList, then EventAddBlock. distinct = (name form, action classes, local class, receipt type / reply kind)"
	r.Assume = []string{
		"'own executor' under a parachain title is the name with the title stripped; under user.<driver>.<x> it is the full user name (the driver's own areas then need the driver's permission)",
		"the owner of a deposit area kept for the transaction's driver is that driver; otherwise the owner of a key is the executor of its namespace; coins and unknown executors grant nothing to these transactions",
		"a local key equal to the bare prefix is neither required nor forbidden; vfy's local keys are judged at EventAddBlock (it does not run ExecLocal during execution)",
		"a rule-conforming transaction is expected to succeed (nothing else can fail in the synthetic executors); such disagreements carry their own fingerprints (allowed-write-refused:…)",
	}
	if c, ok := r.Replaying(); ok {
		var k kase
		if err := json.Unmarshal(c, &k); err != nil {
			fmt.Println("REPLAY-ERROR", err)
			r.Finish()
		}
		w, err := newWorld(k.Para)
		if err != nil {
			fmt.Println("HARNESS-ERROR", err)
			r.Finish()
		}
		if k.Local == "group-second-member" {
			for _, nf := range nameForms(k.Para) {
				for _, a := range actions(nf) {
					if nf.Name == k.Name && len(k.State) == 1 && a.Class == k.State[0] {
						for _, f := range runGroupCase(r, w, nf, a) {
							fmt.Printf("replay: %s: %s\n", f.FP, f.What)
							r.Violate(f.FP, f.What, k, nil)
						}
					}
				}
			}
			w.close()
			r.Finish()
		}
		nf, acts, lc, ok := find(k.Para, k)
		if !ok {
			fmt.Println("REPLAY-ERROR unknown case")
			r.Finish()
		}
		for _, f := range runCase(r, w, nf, acts, lc) {
			fmt.Printf("replay: %s: %s\n", f.FP, f.What)
			r.Violate(f.FP, f.What, k, nil)
		}
		w.close()
		r.Finish()
	}
	maxActs := r.Pick(2, 3)
	nshard := 8
	if r.Fork(nshard) {
		r.Floors["evaluations"] = 5000
		r.Floors["distinct"] = 300
		r.Floors["cases_the_rule_refuses"] = 2000
		r.Floors["cases_with_a_bad_local_key"] = 100
		r.Finish()
	}
	shard, n := r.Shard()
	para := n > 1 && shard%2 == 1
	sub, nsub := shard/2, (n+1)/2
	worlds := []bool{para}
	if n <= 1 {
		worlds = []bool{false} // unsharded runs cover the main-chain names only (driver registration is per process)
		sub, nsub = 0, 1
	}
	for _, p := range worlds {
		w, err := newWorld(p)
		if err != nil {
			fmt.Println("HARNESS-ERROR", err)
			r.Note("HARNESS-ERROR %v", err)
			r.Cap("harness error: " + err.Error())
			r.Finish()
		}
		i := 0
		for _, nf := range nameForms(p) {
			acts := actions(nf)
			// group part: every action on a key the executor may write, as second member after a legitimate writer
			for _, a := range acts {
				a := a
				if !allowedKey(nf, a.Key) || sub != 0 {
					continue
				}
				k := kase{Para: p, Name: nf.Name, Local: "group-second-member", State: []string{a.Class}, Keys: []string{a.Op + " " + a.Key}}
				for _, f := range runGroupCase(r, w, nf, a) {
					f := f
					if f.FP == "HARNESS" {
						r.Note("HARNESS-ERROR %s: %s", vx.J(k), f.What)
						r.Cap("harness error")
						continue
					}
					r.Violate(f.FP, f.What, k, func() string {
						for _, g := range runGroupCase(nil, w, nf, a) {
							if g.FP == f.FP {
								return g.What
							}
						}
						return ""
					})
				}
			}
			for _, idx := range combos(len(acts), maxActs) {
				for _, lc := range localClasses(nf) {
					i++
					if i%nsub != sub {
						continue
					}
					if r.Expired("case enumeration") {
						break
					}
					as := pick(acts, idx)
					k := kase{Para: p, Name: nf.Name, Local: lc.Class, LocalK: lc.Key}
					for _, a := range as {
						k.State = append(k.State, a.Class)
						k.Keys = append(k.Keys, a.Op+" "+a.Key)
					}
					for _, f := range runCase(r, w, nf, as, lc) {
						f := f
						if f.FP == "HARNESS" {
							r.Note("HARNESS-ERROR %s: %s", vx.J(k), f.What)
							r.Cap("harness error")
							continue
						}
						r.Violate(f.FP, f.What, k, func() string {
							for _, g := range runCase(nil, w, nf, as, lc) {
								if g.FP == f.FP {
									return g.What
								}
							}
							return ""
						})
					}
					if len(idx) == 2 && i%997 == 0 {
						r.SampleN(6, k)
					}
				}
			}
		}
		w.close()
	}
	r.Finish()
}
