// C27 — invalid blocks are rejected without side effects or poisoning.
// For a valid block B (on the tip, and on a side branch that later wins) every header-field and body
// mutation is delivered to a fresh real node by broadcast or sync, followed by the genuine B (and a
// child that makes B's branch win): the mutated block must change nothing, must not be served under
// B's hash, and must not keep the genuine B from being accepted.
package main

import (
	"bytes"
	"fmt"
	"strings"

	clog "github.com/33cn/chain33/common/log"
	"github.com/33cn/chain33/common/merkle"
	"github.com/33cn/chain33/types"
	"verif/vnode"
	"verif/vnode/treex"
	"verif/vx"
)

type mutation struct {
	name     string
	sameHash bool // keeps B's block hash (header untouched, transaction count preserved)
	needPool bool // the genuine transactions are in the node's mempool when the block arrives
	apply    func(env *treex.Env, b *types.Block) *types.Block
}

func clone(b *types.Block) *types.Block { return types.Clone(b).(*types.Block) }

func flip(x []byte) []byte {
	y := append([]byte{}, x...)
	y[len(y)/2] ^= 0x40
	return y
}

func mutations() []mutation {
	return []mutation{
		{"header:txhash-altered", false, false, func(e *treex.Env, b *types.Block) *types.Block { c := clone(b); c.TxHash = flip(c.TxHash); return c }},
		{"header:statehash-altered", false, false, func(e *treex.Env, b *types.Block) *types.Block { c := clone(b); c.StateHash = flip(c.StateHash); return c }},
		{"header:height+1", false, false, func(e *treex.Env, b *types.Block) *types.Block { c := clone(b); c.Height++; return c }},
		{"header:height-1", false, false, func(e *treex.Env, b *types.Block) *types.Block { c := clone(b); c.Height--; return c }},
		{"body:last-tx-dropped", false, false, func(e *treex.Env, b *types.Block) *types.Block { c := clone(b); c.Txs = c.Txs[:len(c.Txs)-1]; return c }},
		{"body:tx-added", false, false, func(e *treex.Env, b *types.Block) *types.Block { c := clone(b); c.Txs = append(c.Txs, e.Tx()); return c }},
		{"body:two-txs-swapped", true, false, func(e *treex.Env, b *types.Block) *types.Block {
			c := clone(b)
			c.Txs[0], c.Txs[1] = c.Txs[1], c.Txs[0]
			return c
		}},
		{"body:tx-replaced-by-duplicate-of-another", true, false, func(e *treex.Env, b *types.Block) *types.Block {
			c := clone(b)
			c.Txs[2] = types.Clone(c.Txs[1]).(*types.Transaction)
			return c
		}},
		{"body:tx-replaced-by-other-valid-tx", true, false, func(e *treex.Env, b *types.Block) *types.Block { c := clone(b); c.Txs[1] = e.Tx(); return c }},
		{"body:signature-bytes-altered", true, false, func(e *treex.Env, b *types.Block) *types.Block {
			c := clone(b)
			c.Txs[1].Signature.Signature = flip(c.Txs[1].Signature.Signature)
			return c
		}},
		{"body:signature-bytes-altered-while-tx-in-mempool", true, true, func(e *treex.Env, b *types.Block) *types.Block {
			c := clone(b)
			c.Txs[1].Signature.Signature = flip(c.Txs[1].Signature.Signature)
			return c
		}},
		{"body:pubkey-replaced", true, false, func(e *treex.Env, b *types.Block) *types.Block {
			c := clone(b)
			c.Txs[1].Signature.Pubkey = flip(c.Txs[1].Signature.Pubkey)
			return c
		}},
		{"body:duplicate-tx-with-consistent-txhash", false, false, func(e *treex.Env, b *types.Block) *types.Block {
			c := clone(b)
			c.Txs = append(c.Txs, types.Clone(c.Txs[0]).(*types.Transaction))
			c.TxHash = merkle.CalcMerkleRoot(e.Cfg, c.Height, c.Txs)
			return c
		}},
		{"body:tx-dropped-with-consistent-txhash", false, false, func(e *treex.Env, b *types.Block) *types.Block {
			c := clone(b)
			c.Txs = c.Txs[:len(c.Txs)-1]
			c.TxHash = merkle.CalcMerkleRoot(e.Cfg, c.Height, c.Txs)
			return c
		}},
	}
}

func sameTxs(a, b []*types.Transaction) bool {
	if len(a) != len(b) {
		return false
	}
	for i := range a {
		if !bytes.Equal(types.Encode(a[i]), types.Encode(b[i])) {
			return false
		}
	}
	return true
}

func main() {
	r := vx.Start("C27", "model_checking")
	clog.SetLogLevel("crit")
	r.QuietStderr()
	r.Rule = "valid block B with 3 transactions x {B extends the tip, B is on a side branch that wins later} x every listed header/body mutation (fields covered by the hash, count-changing and count-preserving body changes, signature and public-key bytes, signature altered while the genuine transaction is in the pool, duplicates with a recomputed transaction root) x {broadcast, sync}; history = [mutated block, (query by hash), genuine B, child of B]; real nodes on in-memory databases. state = (position, mutation, kind, step). distinct = (position, mutation, kind, verdict of the mutated delivery) classes"
	r.Assume = []string{"every listed mutation makes the block invalid (none touches a field that validation ignores)", "the rejected block may remain in hash-addressed storage; 'unchanged' is judged on the public answers (best chain, indexes, tip state)"}
	if r.Fork(8) {
		r.Floors["executions"] = 40
		r.Floors["distinct"] = 20
		r.Finish()
	}
	env, err := treex.NewEnv(nil)
	if err != nil {
		fmt.Println("HARNESS-ERROR", err)
		r.Finish()
	}
	defer env.P.Close()
	tip := env.Trunk[treex.TrunkLen]
	// B: child of the trunk tip with 3 txs; S: lighter sibling; C: child of B
	var btxs []*types.Transaction
	for i := 0; i < 3; i++ {
		btxs = append(btxs, env.Tx())
	}
	B, err := env.MakeWith(tip, btxs, treex.Bits[0], 0)
	if err != nil {
		fmt.Println("HARNESS-ERROR", err)
		r.Finish()
	}
	S, _ := env.Make(tip, 1, treex.Bits[0])
	C, err := env.Make(B, 1, treex.Bits[0])
	if err != nil {
		fmt.Println("HARNESS-ERROR", err)
		r.Finish()
	}
	all := []*types.Block{B, S, C}
	txs := treex.TxHashes(all)
	bhash := B.Hash(env.Cfg)
	// reference views
	refOf := func(blocks ...*types.Block) vnode.View {
		n := env.Fresh()
		for _, b := range blocks {
			if err := n.Deliver(vnode.Broadcast, b, "peer"); err != nil {
				r.Note("reference refused: %v", err)
			}
		}
		v := n.Observe(txs)
		n.Close()
		n.Forget()
		return v
	}
	wantB, wantBC := refOf(B), refOf(B, C)
	item := 0
	for _, side := range []bool{false, true} {
		for _, m := range mutations() {
			for _, kind := range []int{vnode.Broadcast, vnode.Sync} {
				item++
				if !r.Mine(item) {
					continue
				}
				pos := "tip"
				if side {
					pos = "side-branch"
				}
				name := fmt.Sprintf("%s/%s/kind%d", pos, m.name, kind)
				kase := map[string]interface{}{"position": pos, "mutation": m.name, "kind": kind}
				n := env.Fresh()
				if side {
					if err := n.Deliver(kind, S, "peer"); err != nil {
						r.Note("%s: sibling refused: %v", name, err)
					}
				}
				if m.needPool {
					for _, tx := range B.Txs {
						if _, err := n.API.SendTx(tx); err != nil {
							r.Note("%s: pool refused a genuine tx: %v", name, err)
						}
					}
				}
				before := n.Observe(txs)
				M := m.apply(env, B)
				errM := n.Deliver(kind, M, "badpeer")
				after := n.Observe(txs)
				r.Count("executions", 1)
				r.Count("transitions", 3)
				r.Seen("states", name)
				r.Seen("distinct", fmt.Sprintf("%s verdict=%v", name, errM != nil))
				r.Note("%s -> mutated block answered: %v; height %s -> %s", name, errM, before["height"], after["height"])
				fail := func(fp, what string) {
					r.Violate(fp, name+": "+what, kase, nil)
				}
				if d := after.Diff(before, 5); len(d) > 0 {
					fail("invalid-block-changed-the-node:"+m.name, fmt.Sprintf("delivering the mutated block (answer: %v) changed the node's answers: %s", errM, strings.Join(d, "; ")))
				}
				// the rejected body must not be served under B's hash
				if m.sameHash {
					if bd, err := n.Chain.GetBlockByHashes([][]byte{bhash}); err == nil && len(bd.Items) == 1 && bd.Items[0] != nil && bd.Items[0].Block != nil {
						if !sameTxs(bd.Items[0].Block.Txs, B.Txs) {
							fail("rejected-body-served-under-the-genuine-hash:"+m.name, "after the rejection a query by B's hash returns the rejected body")
						}
					}
				}
				// the genuine block must still be accepted
				errB := n.Deliver(kind, B, "peer")
				if errB != nil {
					fail("genuine-block-refused-after-tampered-twin:"+m.name, fmt.Sprintf("the genuine block is answered %v after the mutated block (answered %v)", errB, errM))
					n.Close()
					n.Forget()
					continue
				}
				if !side {
					got := n.Observe(txs)
					if d := got.Diff(wantB, 5); len(d) > 0 {
						fail("node-differs-after-genuine-block:"+m.name, "after the genuine block the node differs from a node that only received it: "+strings.Join(d, "; "))
					}
				}
				if err := n.Deliver(kind, C, "peer"); err != nil {
					fail("child-refused:"+m.name, fmt.Sprintf("the child of the genuine block is answered %v", err))
				} else {
					got := n.Observe(txs)
					if d := got.Diff(wantBC, 5); len(d) > 0 {
						fail("node-differs-after-child:"+m.name, "after B's child (reorganisation re-loads B by hash) the node differs from the reference: "+strings.Join(d, "; "))
					}
				}
				n.Close()
				n.Forget()
				r.SampleN(4, kase)
			}
		}
	}
	r.Finish()
}
