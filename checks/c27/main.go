// C27 — invalid blocks are rejected without side effects or poisoning.
// For a valid block B (on the tip, and on a side branch that later wins) every header-field and body
// mutation is delivered to a fresh real node by broadcast or sync, followed by the genuine B (and a
// child that makes B's branch win): the mutated block must change nothing, must not be served under
// B's hash, and must not keep the genuine B from being accepted.
package main

import (
	"bytes"
	"fmt"
	"strings"

	clog "github.com/33cn/chain33/common/log"
	"github.com/33cn/chain33/common/merkle"
	"github.com/33cn/chain33/types"
	"verif/vnode"
	"verif/vnode/treex"
	"verif/vx"
)

type mutation struct {
	name     string
	sameHash bool // keeps B's block hash (header untouched, transaction count preserved)
	needPool bool // the genuine transactions are in the node's mempool when the block arrives
	apply    func(env *treex.Env, b *types.Block) *types.Block
}

func clone(b *types.Block) *types.Block { return types.Clone(b).(*types.Block) }

func flip(x []byte) []byte {
	y := append([]byte{}, x...)
	y[len(y)/2] ^= 0x40
	return y
}

func mutations() []mutation {
	return []mutation{
		{"header:txhash-altered", false, false, func(e *treex.Env, b *types.Block) *types.Block { c := clone(b); c.TxHash = flip(c.TxHash); return c }},
		{"header:statehash-altered", false, false, func(e *treex.Env, b *types.Block) *types.Block {
			c := clone(b)
			c.StateHash = flip(c.StateHash)
			return c
		}},
		{"header:height+1", false, false, func(e *treex.Env, b *types.Block) *types.Block { c := clone(b); c.Height++; return c }},
		{"header:height-1", false, false, func(e *treex.Env, b *types.Block) *types.Block { c := clone(b); c.Height--; return c }},
		{"body:last-tx-dropped", false, false, func(e *treex.Env, b *types.Block) *types.Block { c := clone(b); c.Txs = c.Txs[:len(c.Txs)-1]; return c }},
		{"body:tx-added", false, false, func(e *treex.Env, b *types.Block) *types.Block {
			c := clone(b)
			c.Txs = append(c.Txs, e.Tx())
			return c
		}},
		{"body:two-txs-swapped", true, false, func(e *treex.Env, b *types.Block) *types.Block {
			c := clone(b)
			c.Txs[0], c.Txs[1] = c.Txs[1], c.Txs[0]
			return c
		}},
		{"body:tx-replaced-by-duplicate-of-another", true, false, func(e *treex.Env, b *types.Block) *types.Block {
			c := clone(b)
			c.Txs[2] = types.Clone(c.Txs[1]).(*types.Transaction)
			return c
		}},
		{"body:tx-replaced-by-other-valid-tx", true, false, func(e *treex.Env, b *types.Block) *types.Block { c := clone(b); c.Txs[1] = e.Tx(); return c }},
		{"body:signature-bytes-altered", true, false, func(e *treex.Env, b *types.Block) *types.Block {
			c := clone(b)
			c.Txs[1].Signature.Signature = flip(c.Txs[1].Signature.Signature)
			return c
		}},
		{"body:signature-bytes-altered-while-tx-in-mempool", true, true, func(e *treex.Env, b *types.Block) *types.Block {
			c := clone(b)
			c.Txs[1].Signature.Signature = flip(c.Txs[1].Signature.Signature)
			return c
		}},
		{"block:invalid-block-signature", true, false, func(e *treex.Env, b *types.Block) *types.Block {
			c := clone(b)
			c.Signature = &types.Signature{Ty: types.SECP256K1, Pubkey: c.Txs[0].Signature.Pubkey, Signature: flip(c.Txs[0].Signature.Signature)}
			return c
		}},
		{"block:invalid-block-signature-while-txs-in-mempool", true, true, func(e *treex.Env, b *types.Block) *types.Block {
			c := clone(b)
			c.Signature = &types.Signature{Ty: types.SECP256K1, Pubkey: c.Txs[0].Signature.Pubkey, Signature: flip(c.Txs[0].Signature.Signature)}
			return c
		}},
		{"body:pubkey-replaced", true, false, func(e *treex.Env, b *types.Block) *types.Block {
			c := clone(b)
			c.Txs[1].Signature.Pubkey = flip(c.Txs[1].Signature.Pubkey)
			return c
		}},
		{"body:duplicate-tx-with-consistent-txhash", false, false, func(e *treex.Env, b *types.Block) *types.Block {
			c := clone(b)
			c.Txs = append(c.Txs, types.Clone(c.Txs[0]).(*types.Transaction))
			c.TxHash = merkle.CalcMerkleRoot(e.Cfg, c.Height, c.Txs)
			return c
		}},
		{"body:tx-dropped-with-consistent-txhash", false, false, func(e *treex.Env, b *types.Block) *types.Block {
			c := clone(b)
			c.Txs = c.Txs[:len(c.Txs)-1]
			c.TxHash = merkle.CalcMerkleRoot(e.Cfg, c.Height, c.Txs)
			return c
		}},
	}
}

func sameTxs(a, b []*types.Transaction) bool {
	if len(a) != len(b) {
		return false
	}
	for i := range a {
		if !bytes.Equal(types.Encode(a[i]), types.Encode(b[i])) {
			return false
		}
	}
	return true
}

func main() {
	r := vx.Start("C27", "model_checking")
	clog.SetLogLevel("crit")
	r.QuietStderr()
	r.Rule = "valid block B with 3 transactions x {B extends the tip, B is on a side branch that wins later, the mutated block arrives before its parent (orphan pool)} x every listed header/body mutation (fields covered by the hash, count-changing and count-preserving body changes, signature and public-key bytes, signature altered while the genuine transaction is in the pool, duplicates with a recomputed transaction root) x {broadcast, sync}; history = [mutated block, (query by hash), genuine B, child of B]; real nodes on in-memory databases. state = (position, mutation, kind, step). distinct = (position, mutation, kind, verdict of the mutated delivery) classes"
	r.Assume = []string{"every listed mutation makes the block invalid (none touches a field that validation ignores)", "the rejected block may remain in hash-addressed storage; 'unchanged' is judged on the public answers (best chain, indexes, tip state)"}
	if r.Fork(8) {
		r.Floors["executions"] = 40
		r.Floors["distinct"] = 20
		r.Finish()
	}
	env, err := treex.NewEnv(nil)
	if err != nil {
		fmt.Println("HARNESS-ERROR", err)
		r.Finish()
	}
	defer env.P.Close()
	tip := env.Trunk[treex.TrunkLen]
	// B: child of the trunk tip with 3 txs; S: lighter sibling; C: child of B (3 txs); D: child of C
	mk3 := func(parent *types.Block) *types.Block {
		var txs3 []*types.Transaction
		for i := 0; i < 3; i++ {
			txs3 = append(txs3, env.Tx())
		}
		b, err := env.MakeWith(parent, txs3, treex.Bits[0], 0)
		if err != nil {
			fmt.Println("HARNESS-ERROR", err)
			r.Finish()
		}
		return b
	}
	B := mk3(tip)
	S, _ := env.Make(tip, 1, treex.Bits[0])
	C := mk3(B)
	D, err := env.Make(C, 1, treex.Bits[0])
	if err != nil {
		fmt.Println("HARNESS-ERROR", err)
		r.Finish()
	}
	all := []*types.Block{B, S, C, D}
	txs := treex.TxHashes(all)
	refOf := func(blocks ...*types.Block) vnode.View {
		n := env.Fresh()
		for _, b := range blocks {
			if err := n.Deliver(vnode.Broadcast, b, "peer"); err != nil {
				r.Note("reference refused: %v", err)
			}
		}
		v := n.Observe(txs)
		n.Close()
		n.Forget()
		return v
	}
	// a position = which block is mutated (target), what is delivered before the mutated block, between
	// the mutated and the genuine block, and after the genuine block; and the reference views after
	// the genuine block and at the end
	type position struct {
		name             string
		target           *types.Block
		pre, mid, post   []*types.Block
		wantMid          vnode.View // after the blocks of mid
		wantAfterGenuine vnode.View // nil = not compared (the target is on a side branch at that moment)
		wantEnd          vnode.View
	}
	positions := []position{
		{"tip", B, nil, nil, []*types.Block{C}, nil, refOf(B), refOf(B, C)},
		{"side-branch", B, []*types.Block{S}, nil, []*types.Block{C}, nil, nil, refOf(B, C)},
		{"orphan-first", C, nil, []*types.Block{B}, []*types.Block{D}, refOf(B), refOf(B, C), refOf(B, C, D)},
	}
	item := 0
	for _, pos := range positions {
		T := pos.target
		thash := T.Hash(env.Cfg)
		for _, m := range mutations() {
			for _, kind := range []int{vnode.Broadcast, vnode.Sync} {
				item++
				if !r.Mine(item) {
					continue
				}
				name := fmt.Sprintf("%s/%s/kind%d", pos.name, m.name, kind)
				kase := map[string]interface{}{"position": pos.name, "mutation": m.name, "kind": kind}
				n := env.Fresh()
				for _, b := range pos.pre {
					if err := n.Deliver(kind, b, "peer"); err != nil {
						r.Note("%s: %v", name, err)
					}
				}
				if m.needPool {
					for _, tx := range T.Txs {
						_, _ = n.API.SendTx(tx)
					}
				}
				before := n.Observe(txs)
				M := m.apply(env, T)
				errM := n.Deliver(kind, M, "badpeer")
				after := n.Observe(txs)
				r.Count("executions", 1)
				r.Count("transitions", int64(3+len(pos.pre)+len(pos.mid)+len(pos.post)))
				r.Seen("states", name)
				r.Seen("distinct", fmt.Sprintf("%s verdict=%v", name, errM != nil))
				r.Note("%s -> mutated block answered: %v; height %s -> %s", name, errM, before["height"], after["height"])
				fail := func(fp, what string) {
					r.Violate(fp, name+": "+what, kase, nil)
				}
				if d := after.Diff(before, 5); len(d) > 0 {
					fail("invalid-block-changed-the-node:"+m.name, fmt.Sprintf("delivering the mutated block (answer: %v) changed the node's answers: %s", errM, strings.Join(d, "; ")))
				}
				served := func(when string) {
					if !m.sameHash {
						return
					}
					if bd, err := n.Chain.GetBlockByHashes([][]byte{thash}); err == nil && len(bd.Items) == 1 && bd.Items[0] != nil && bd.Items[0].Block != nil {
						if !sameTxs(bd.Items[0].Block.Txs, T.Txs) {
							fail("rejected-body-served-under-the-genuine-hash:"+m.name, when+" a query by the genuine block's hash returns the rejected body")
						}
					}
				}
				served("after the mutated block")
				// blocks that arrive between the mutated and the genuine block (the missing parent)
				for _, b := range pos.mid {
					if err := n.Deliver(kind, b, "peer"); err != nil {
						// the answer to the valid parent carries the error of the parked child (ProcessOrphans);
						// the statement is about the node's state, so only that is judged below
						r.Seen("distinct", "valid parent answered with the parked child's error: "+err.Error())
					}
				}
				if len(pos.mid) > 0 {
					served("after the parent arrived (the parked block was processed)")
					gotMid := n.Observe(txs)
					if d := gotMid.Diff(pos.wantMid, 5); len(d) > 0 {
						fail("node-differs-after-parent-of-parked-block:"+m.name, "after the genuine parent arrived (and the parked mutated block was processed) the node differs from a node that only received the parent: "+strings.Join(d, "; "))
					}
				}
				errT := n.Deliver(kind, T, "peer")
				if errT != nil {
					fail("genuine-block-refused-after-tampered-twin:"+m.name, fmt.Sprintf("the genuine block is answered %v after the mutated block (answered %v)", errT, errM))
					n.Close()
					n.Forget()
					continue
				}
				if pos.wantAfterGenuine != nil {
					got := n.Observe(txs)
					if d := got.Diff(pos.wantAfterGenuine, 5); len(d) > 0 {
						fail("node-differs-after-genuine-block:"+m.name, "after the genuine block the node differs from a node that only received the genuine blocks: "+strings.Join(d, "; "))
					}
				}
				for _, b := range pos.post {
					if err := n.Deliver(kind, b, "peer"); err != nil {
						fail("child-refused:"+m.name, fmt.Sprintf("the child of the genuine block is answered %v", err))
					}
				}
				got := n.Observe(txs)
				if d := got.Diff(pos.wantEnd, 5); len(d) > 0 {
					fail("node-differs-at-the-end:"+m.name, "after the child (reorganisation re-loads the block by hash) the node differs from the reference: "+strings.Join(d, "; "))
				}
				n.Close()
				n.Forget()
				r.SampleN(4, kase)
			}
		}
	}
	r.Finish()
}
